# property table for tools/gen_manifest.py  (check(...) = claimed, NA[...] = not claimed with reason)
check("C01", "exploration",
      "Runtime monitoring of the real parser on ~34k (quick) / ~650k (thorough) inputs: outcome classifier (only eval_error may "
      "leave parse), cursor-at-end hook, trivia scanner, ASan/UBSan/libstdc++ assertions with the input terminator poisoned, "
      "native-stack probes to depth 3*10^5 / 10^6 at the default 8 MiB stack. Held on the executions observed; not a proof over all byte strings.",
      "Trusted: clang ASan/UBSan, the fork runner's crash attribution, hook H3 (parse_remaining_max). Assumes inputs the generators produce are representative.",
      "sanitizer-instrumented execution + outcome/trace monitors over generated and mutated inputs", "DESIGN.md section 5 C01")
check("C05", "exploration",
      "The complete matrix 16 binary + 11 assignment + 5 unary operators x 14 arithmetic types^2 x 17-20 boundary values^2 is "
      "executed on the real engine through five routes (runtime node, operator-as-function, right-constant fold, constant fold, "
      "compound assignment; the fold routes sampled 1/8 in quick, complete in thorough) and compared cell by cell with the host "
      "compiler's own result (value, width, signedness, floating-ness, in-place update); trapping cells must raise; SIGFPE is "
      "caught and reported. ~2.4M executed cells per quick run.",
      "Trusted: clang 14 on x86-64 as arithmetic oracle; the UB predicate (__int128/long double) that removes C++-undefined non-trapping cells.",
      "differential execution against the host compiler over an enumerated operand matrix, under ASan/UBSan", "DESIGN.md section 5 C05")
check("C16", "exploration",
      "~35k (quick) / ~10^6 (thorough) literals evaluated on the real engine and compared with oracles that do not share code with the "
      "parser: python big ints + the [lex.icon] typing table (typeid-exact), glibc strtof/strtod/strtold within 4 ulp, an independent C++ "
      "escape decoder (malformed => must be eval_error), and keyword-colliding identifiers found by FNV-1a inversion at check time and "
      "confirmed with the engine's own hash, used as variable/function/parameter/global/attribute names.",
      "Trusted: glibc strto*, python int/bytes semantics, my transcription of [lex.icon]/[lex.ccon]. LP64 only.",
      "model-based oracle over generated literals on the ASan/UBSan-instrumented engine", "DESIGN.md section 5 C16")
for _p in ["C%02d" % i for i in range(2, 21) if "C%02d" % i not in CHECKS]:
    NA[_p] = "check not implemented yet in this revision (work in progress, see DESIGN.md); nothing is claimed"
