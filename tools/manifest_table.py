# property table for tools/gen_manifest.py  (check(...) = claimed, NA[...] = not claimed with reason)
check("C01", "exploration",
      "Runtime monitoring of the real parser on ~34k (quick) / ~650k (thorough) inputs: outcome classifier (only eval_error may "
      "leave parse), cursor-at-end hook, trivia scanner, ASan/UBSan/libstdc++ assertions with the input terminator poisoned, "
      "native-stack probes to depth 3*10^5 / 10^6 at the default 8 MiB stack. Held on the executions observed; not a proof over all byte strings.",
      "Trusted: clang ASan/UBSan, the fork runner's crash attribution, hook H3 (parse_remaining_max). Assumes inputs the generators produce are representative.",
      "sanitizer-instrumented execution + outcome/trace monitors over generated and mutated inputs", "DESIGN.md section 5 C01")
check("C05", "exploration",
      "The complete matrix 16 binary + 11 assignment + 5 unary operators x 14 arithmetic types^2 x 17-20 boundary values^2 is "
      "executed on the real engine through five routes (runtime node, operator-as-function, right-constant fold, constant fold, "
      "compound assignment; the fold routes sampled 1/8 in quick, complete in thorough) and compared cell by cell with the host "
      "compiler's own result (value, width, signedness, floating-ness, in-place update); trapping cells must raise; SIGFPE is "
      "caught and reported. ~2.4M executed cells per quick run.",
      "Trusted: clang 14 on x86-64 as arithmetic oracle; the UB predicate (__int128/long double) that removes C++-undefined non-trapping cells.",
      "differential execution against the host compiler over an enumerated operand matrix, under ASan/UBSan", "DESIGN.md section 5 C05")
check("C16", "exploration",
      "~35k (quick) / ~10^6 (thorough) literals evaluated on the real engine and compared with oracles that do not share code with the "
      "parser: python big ints + the [lex.icon] typing table (typeid-exact), glibc strtof/strtod/strtold within 8 ulp ('a few'; distribution reported), an independent C++ "
      "escape decoder (malformed => must be eval_error), ~130 malformed numeric spellings (octal with 8/9, repeated/ill-formed suffixes, exponent marker without digits: must be rejected), and keyword-colliding identifiers found by FNV-1a inversion at check time and "
      "confirmed with the engine's own hash, used as variable/function/parameter/global/attribute names.",
      "Trusted: glibc strto*, python int/bytes semantics, my transcription of [lex.icon]/[lex.ccon]. LP64 only.",
      "model-based oracle over generated literals on the ASan/UBSan-instrumented engine", "DESIGN.md section 5 C16")
check("C12", "exploration",
      "2.5k (quick) / 100k (thorough) seeded operation sequences (<=40 / <=200 statements) over Vector, string, Map, Pair and range views with "
      "hostile indices are executed statement by statement on the ASan+libstdc++-assertions engine; after every statement the result "
      "(value or must-throw) and a dump of the container are compared with a python list/dict/str model. Modify-while-viewing witnesses are "
      "replayed as known findings (the property's own carve-out).",
      "Trusted: python list/dict/str as std:: model, ASan red zones + _GLIBCXX_ASSERTIONS for accesses inside capacity. List is not part of the default stdlib and is not covered.",
      "step-by-step model oracle over generated operation histories under ASan", "DESIGN.md section 5 C12")
check("C17", "exploration",
      "Every prelude algorithm is called on every int vector of length 0..3 (quick, 0..4 thorough) over {-3..3} (enumerated completely) plus sampled/"
      "random longer vectors, strings and maps, as '[result, callback log, input afterwards]', and compared with a python functional specification "
      "(result, exact callback trace incl. short-circuit, input unchanged). ~10^5 calls per quick run.",
      "Trusted: my python specification of each function (argument order of foldl/reduce taken from the implementation's own use in sum/product).",
      "model-based oracle + callback trace specification over enumerated inputs under ASan", "DESIGN.md section 5 C17")
check("C18", "exploration",
      "20k/600k value trees built through the C++ API (strings over all 256 byte values, ints at 2^31/2^53/2^63) must survive "
      "from_json(to_json(v)); 50k/1M JSON texts (valid, mutated, truncated, random, hand-written hostile numbers/escapes) must be rejected "
      "with an exception or accepted with from_json(to_json(v1)) == v1 (structural comparer, floats within 1e-6); nesting probes up to 10^5/10^6 "
      "also at the default 8 MiB stack in an uninstrumented build. ASan/UBSan/assertions with the input terminator poisoned; signals, terminate "
      "and watchdog expiry are attributed per input by the fork runner.",
      "Trusted: the harness's structural comparer; ASan for over-reads (terminator poisoned, exact-size heap buffer).",
      "sanitizer-instrumented execution + round-trip oracle over generated values and mutated texts", "DESIGN.md section 5 C18")
check("C19", "exploration",
      "~2k/100k file contents (all prefixes of length 0..12 of 36 snippets, random cuts of shipped scripts, +-BOM, double BOM, partial BOMs, "
      "CRLF, shebang, trailing NULs) are evaluated through eval_file and through eval(bytes minus one BOM) on two fresh engines: class, result, "
      "reason, position, stdout and the number of bytes handed to the parser (hook) must agree; missing files must raise file_not_found_error; "
      "600/30k histories of use()/eval_file() (C++ and script level) over logging files in up to 3 search directories, with nested, failing "
      "and cyclic includes, are checked call by call against a model of the used set (exactly-once, search order, error propagation).",
      "Trusted: hook H3b (first_parse_input_size), the python model of use(). A use() of a file from inside its own evaluation is taken to be a no-op.",
      "differential execution (file vs string) + model-checked call histories with a logging callback, under ASan", "DESIGN.md section 5 C19")
check("C02", "exploration",
      "2.5k/300k generated programs over the property's construct list (plus templates aimed at each optimizer pass: loop-variable captures, "
      "counter modification, references in blocks, constant conditions, fold failures, non-trailing returns, bare identifier/constant "
      "statements, unused results, declaration fusion) run on two fresh engines in one ASan process - default pipeline vs identity optimizer - "
      "and stdout, result type+value, error class+reason and effects on harness-owned C++ objects are compared; non-triviality (trees differ) "
      "and the census of optimised node kinds are measured.",
      "Trusted: the identity-optimizer engine as reference (same parser/evaluator code), ASan with detect_stack_use_after_return for values outliving optimised constructs.",
      "differential execution (optimised vs unoptimised configuration of the same engine) under ASan", "DESIGN.md section 5 C02")
check("C08", "exploration",
      "2.5k/200k cases: generated functions whose bodies build and mutate values from literals (all literal kinds incl. foldable booleans, "
      "interpolation, inline vectors/maps/ranges) are each called 3-6 times in a seeded interleaving, alternately from source and by "
      "re-evaluating a stored parse tree; execution i must equal execution 1 (result, type, output, error class); parse trees must print "
      "identically before and after; parameter-assigning functions are called with foldable constant arguments; 30% of the cases contain a function that re-enters itself "
      "out of a loop body and is judged against its closed-form result.",
      "Trusted: equality of first and later executions as oracle; closed-form expectations for the re-entrant templates.", 
      "history oracle over repeated evaluations of the same code, under ASan", "DESIGN.md section 5 C08")
check("C04", "exploration",
      "2.5k/200k programs in which one body is evaluated repeatedly under changing scope layouts (eval()-injected variables, conditional "
      "declarations, recursion, lambdas called free/bound/as attribute, method vs free calls; all permutations of <=3 calls) plus a layout-stable "
      "control group are run three times: lookup hints in normal use, hints bypassed through hook H1 (every identifier resolved by name) and in "
      "audit mode (each lookup resolved both ways, counted per code path). Normal and bypass must agree; the recorded residual shapes (four probe kinds) are "
      "produced only by dedicated probe programs and attributed by the audit hook's classification.",
      "Trusted: hook H1 (bypass = the engine's own by-name search; audit never changes the returned value). Known-finding attribution is per code path + circumstance.",
      "differential execution (cache on vs forced off) + online audit hook comparing cached and by-name resolution, under ASan", "DESIGN.md section 5 C04")
check("C09", "fault_enumeration",
      "For each of 200/10k generated programs (chailang + frame templates reaching callbacks through def, lambda, method, attribute-held "
      "function, bind, for_each/map/filter/foldl, guards, operator overloads, [], constructors, eval strings, interpolation, catch/finally "
      "bodies, loop conditions, switch, recursion, calls through a registered conversion, calls that fail while being set up) every invocation of a harness callback (first 60) is made to throw each of 8 exception "
      "kinds in turn (~20k faulted runs per quick run); after each run the thread's stack shape (hook H2) equals the shape before, "
      "get_locals() is exactly the declarations of completed top-level statements, and a sanity script evaluates.",
      "Trusted: hook H2 (read-only accessor), mark() statements as statement-progress oracle. The number of pending conversion results is part of the compared shape.",
      "fault injection at every callback invocation + invariant check on hooked engine state, under ASan", "DESIGN.md section 5 C09")
check("C13", "exploration",
      "40/2000 rounds: a fresh engine is driven by 2..16 threads running seeded operation lists (shared calls, colliding locals, def/global/class/"
      "add(fun)/add(type_conversion), calls of registrations other threads published after they returned, use() of one file, get_state) under "
      "ThreadSanitizer with seeded yields before every lock acquisition (hook H4). Oracles: TSan reports with chaiscript frames (de-duplicated "
      "by frame pair), per-thread results vs sequential expectation, visibility of published registrations, final inventory, use-once counter, "
      "watchdog for deadlock. Evidence reports distinct schedule signatures and thread switches observed.",
      "Trusted: g++ ThreadSanitizer (std::mutex/shared_mutex are intercepted), hook H4. Schedules are sampled, not enumerated.",
      "race detector + history/visibility oracles over randomized multi-threaded stress with injected yields", "DESIGN.md section 5 C13")
check("C14", "exploration",
      "350/60k histories of create/define/use/probe/destroy over 3 engine slots (placement-new at a fixed re-used address, or heap) executed "
      "from the main thread and 3 long-lived workers (create/destroy on different threads) with colliding names (locals, globals, script and C++ functions, classes, user conversions, registered type names bound to a different C++ type per engine); after every operation live "
      "engines are probed for every name on the acting and a random thread against a per-engine, per-thread dictionary model; ASan on.",
      "Trusted: the dictionary model; operations are sequential across threads (concurrency is C13).",
      "model-checked histories over multiple engine instances and threads, under ASan", "DESIGN.md section 5 C14")
check("C15", "exploration",
      "700/100k histories of 6-29 steps on one engine - definitions of functions with typed/untyped overloads, globals, classes, C++ functions "
      "and types, use(file), thread-local variables, get_state, set_state(any earlier snapshot), re-adding names after a restore - each followed "
      "by a final pass that restores every snapshot again; after every step existence and call results of every function/overload, globals, "
      "classes, type names, function_exists, the used-file evaluation counter and the thread's locals are probed against a dictionary model.",
      "Trusted: the dictionary model of the global environment (bindings, not values of shared global objects).",
      "model-checked operation histories with full-environment probes after every step, under ASan", "DESIGN.md section 5 C15")
check("C10", "exploration",
      "2.5k/250k generated nests (depth <= 3) of try / 0-3 typed or untyped catch clauses / finally spread over frames (def, lambda, method, "
      "bind, for_each, map, attribute-held function) throwing 13 kinds (script int/string/class object/runtime_error object/C++ user type; C++ "
      "std::runtime_error, out_of_range, logic_error, raw int, non-std struct, eval_error; failed dispatch; arithmetic_error) at generated "
      "positions incl. catch bodies; the exact trace printed by try/catch/finally bodies and the C++ type + payload leaving eval (with and "
      "without an exception_specification) are compared with a reference model of the documented semantics.",
      "Trusted: the reference model (C++ class hierarchy of the thrown kinds, first-matching-clause, finally-exactly-once). Catch guards and throwing finally bodies are not generated.",
      "trace specification + reference model over generated exception nests, under ASan", "DESIGN.md section 5 C10")
check("C20", "exploration",
      "4k/200k generated multi-line programs with layout noise (blank lines, three comment styles, spaces/tabs, LF/CRLF, interpolated strings that re-enter the parser) whose functions form a "
      "call chain of depth 1-6 spread over eval() chunks with distinct file names and use()d files, with one injected fault (unresolvable "
      "identifier in 8 expression contexts, unknown function, no matching overload, wrong arity) at a position known from the generator's own "
      "line/column bookkeeping: eval_error::call_stack[0] must start exactly there with that file name and the Fun_Call entries must be exactly "
      "the enclosing call sites, innermost first, each with its own file/line/column.",
      "Trusted: the generator's line/column bookkeeping (ground truth); call sites begin with an identifier.",
      "ground-truth oracle from the generator's source map over generated programs, under ASan", "DESIGN.md section 5 C20")
check("C11", "exploration",
      "3k/200k programs composed of 34 route templates over an instrumented C++ class (instance registry with ids, tags, magic word): create, "
      "copy, alias, store in Vector/Map/attribute, capture, bind, pass by value/&/const&/*/const*/shared_ptr/shared_ptr<const>, return by "
      "value/shared_ptr/unique_ptr, base-class and user conversions (converted temporaries), C++-held shared_ptr and std::function callbacks, "
      "loop variables and per-iteration objects captured by closures, exception unwinding; referrers are dropped by construction and probes "
      "expect_dead/expect_alive run after settle(); the engine is destroyed inside the case and the registry audited (exactly-once "
      "destruction, no use after destroy, nothing alive). ASan incl. stack-use-after-return.",
      "Trusted: the registry (single-threaded), the by-construction knowledge of when the last referrer is gone. No reference cycles.",
      "event-log checker over an instrumented class + ASan, on generated lifetime routes", "DESIGN.md section 5 C11")
check("C07", "exploration",
      "2.5k/100k mutation attempts: const source (22 kinds: registered function objects, C++ objects shared by const&, const*, shared_ptr<const>, const return values, "
      "add_global_const / const_var values; plus literal spellings re-evaluated after the attempt) x alias chain of 0-5 steps (var &, :=, "
      "return, copy, vector element, then parameter / parameter+reference / capture / bind wrappers) x one mutator of the source's type (every "
      "assignment operator, ++/--, mutating members of string/Vector/Map/user class, harness functions taking T&, T*, shared_ptr<T>, "
      "reference_wrapper<T>). Conservation oracle: the harness owns the objects and compares snapshots of all of them before/after; attempts "
      "through reference-preserving chains with an own-type mutator must end in an exception.",
      "Trusted: snapshots taken from C++. Converting parameter forms (shared_ptr<int>/reference_wrapper<int> fed from an arithmetic value) are judged on conservation only.",
      "conservation oracle over harness-owned const objects + outcome check, on generated alias chains x mutators, under ASan", "DESIGN.md section 5 C07")
check("C06", "exploration",
      "Inbound: 2.5k/150k seeded overload sets (1-4 signatures from 58 one-parameter forms - value, const&, &, *, const*, shared_ptr, "
      "shared_ptr<const> over int/double/bool/string/Base/Derived/Other, other arithmetic types, Boxed_Value, Boxed_Number, std::function, "
      "vector - and 12 two-parameter signatures; seeded registration order) x 16-25 calls with arguments from 34 script value kinds incl. wrong "
      "arity; every function logs overload id, received values and addresses. Trace specification over the entry log: <= 1 entry per call, "
      "exactly 1 iff the call returns, entered overload admissible (MUST/MAY/NEVER table from the documented conversions), no error when the "
      "choice is unambiguous and admissible, exact overload preferred, by-reference arguments at the same address, values equal after "
      "conversion. Outbound: 34 value kinds x 16 requested types x eval<T>/boxed_cast<T>/std::function<T()>: value only if admissible, "
      "otherwise bad_boxed_cast.",
      "Trusted: the admissibility table (calibrated against the observed single-overload matrix, which agrees with the documented rules cell by cell). MAY cells and ambiguous non-exact candidate sets are logged, never judged.",
      "trace specification over an entry log of instrumented C++ functions, on generated overload sets x argument tuples, under ASan", "DESIGN.md section 5 C06")
check("C03", "exploration",
      "4k/400k generated programs over the whole modelled core language + 600/30k programs copying parameters bound to temporaries + 700/40k "
      "programs over string->int maps + 2.5k/100k minimal-parenthesis precedence expressions run on the real "
      "engine and, as ASTs, on an independent reference interpreter of the documented semantics (lib/chailang/interp.py): stdout, final "
      "value+type, error class and the trace of a harness callback must agree. A divergence is attributed to a recorded finding only if the "
      "model with exactly that finding's deviation switch reproduces the engine's complete behaviour; anything else is a violation.",
      "Trusted: the reference interpreter (my reading of cheatsheet.md and the grammar notes; validated by agreeing with the engine on thousands of programs after triage of every disagreement). Only constructs the documentation pins down are generated.",
      "reference-model oracle (independent interpreter over the generator's AST) with deviation-switch attribution, under ASan", "DESIGN.md section 5 C03")
for _p in ["C%02d" % i for i in range(2, 21) if "C%02d" % i not in CHECKS]:
    NA[_p] = "check not implemented yet in this revision (work in progress, see DESIGN.md); nothing is claimed"
