# property table for tools/gen_manifest.py  (check(...) = claimed, NA[...] = not claimed with reason)
check("C01", "exploration",
      "Runtime monitoring of the real parser on ~34k (quick) / ~650k (thorough) inputs: outcome classifier (only eval_error may "
      "leave parse), cursor-at-end hook, trivia scanner, ASan/UBSan/libstdc++ assertions with the input terminator poisoned, "
      "native-stack probes to depth 3*10^5 / 10^6 at the default 8 MiB stack. Held on the executions observed; not a proof over all byte strings.",
      "Trusted: clang ASan/UBSan, the fork runner's crash attribution, hook H3 (parse_remaining_max). Assumes inputs the generators produce are representative.",
      "sanitizer-instrumented execution + outcome/trace monitors over generated and mutated inputs", "DESIGN.md section 5 C01")
for _p in ["C%02d" % i for i in range(2, 21)]:
    NA[_p] = "check not implemented yet in this revision (work in progress, see DESIGN.md); nothing is claimed"
