#!/usr/bin/env python3
"""tools/seeded_table.py: print the DESIGN.md section 12 table from seeded/*/meta.json"""
import json
import os

ROOT = os.path.dirname(os.path.dirname(os.path.abspath(__file__)))


def main():
    print("| property | seeded change | needs | first trial | after strengthening | caught as | confirmed |")
    print("|---|---|---|---|---|---|---|")
    n = first = final = 0
    for sid in sorted(os.listdir(os.path.join(ROOT, "seeded"))):
        mp = os.path.join(ROOT, "seeded", sid, "meta.json")
        if not os.path.exists(mp):
            continue
        m = json.load(open(mp))
        trial = conf = None
        for k, v in m.get("what_i_ran", {}).items():
            if k.startswith("check_trial"):
                trial = v
            if k.startswith("confirmation"):
                conf = v
        trial = trial or {}
        ft = trial.get("first_trial") or "?"
        after = trial.get("after_strengthening")
        keys = trial.get("violation_keys") or []
        n += 1
        first += ft == "DETECTED"
        final += ft == "DETECTED" or bool(after and str(after).startswith("DETECTED"))
        needs = (m.get("needs_to_manifest") or "").replace("|", "/").replace("\n", " ")[:110]
        print("| %s | %s | %s | %s | %s | %s | %s |" % (m["property"], sid.split("-", 1)[1], needs, ft, (str(after).split(" (")[0] if after else "-"),
                                                     ("`%s`" % keys[0].replace("|", "/")) if keys else "", "yes" if conf and conf.get("confirmed") else "?"))
    print()
    print("%d seeded changes; %d detected at first trial, %d after strengthening." % (n, first, final))


if __name__ == "__main__":
    main()
