#!/usr/bin/env python3
"""tools/adopt_seeded.py <agent-output-dir> [first_trial=DETECTED|MISSED] [keys,comma,separated]
Copies a seeded change written by a sub-agent (patch.diff, demo.*, meta.json in the agent's format) into seeded/<PROP>-<name>/ and
writes meta.json in this repository's format. The confirmation block is filled in by tools/verify_seeded.py + tools/finish_meta.py."""
import json
import os
import shutil
import sys

ROOT = os.path.dirname(os.path.dirname(os.path.abspath(__file__)))


def main():
    src = os.path.abspath(sys.argv[1])
    first = sys.argv[2] if len(sys.argv) > 2 else None
    keys = [k for k in (sys.argv[3].split(",") if len(sys.argv) > 3 else []) if k]
    am = {}
    for n in ("meta.json", "agent_meta.json"):
        if os.path.exists(os.path.join(src, n)):
            am = json.load(open(os.path.join(src, n)))
    prop = am.get("property") or os.path.basename(os.path.dirname(src))
    name = am.get("name") or os.path.basename(src)
    sid = "%s-%s" % (prop, name)
    dst = os.path.join(ROOT, "seeded", sid)
    os.makedirs(dst, exist_ok=True)
    demos = []
    for f in sorted(os.listdir(src)):
        if f == "patch.diff" or f.startswith("demo"):
            shutil.copy(os.path.join(src, f), os.path.join(dst, f))
            if f.startswith("demo"):
                demos.append(f)
    meta = {"id": sid, "property": prop,
            "breaks": am.get("summary") or am.get("breaks") or "",
            "needs_to_manifest": am.get("needs") or am.get("needs_to_manifest") or "",
            "origin": "written by an independent sub-agent that saw only the property text and a scratch worktree of /repo (nothing from /verif)",
            "agent_report": {k: v for k, v in am.items() if k not in ("property", "name", "summary", "needs", "breaks", "needs_to_manifest")},
            "what_i_ran": {"check_trial (tools/try_mutant.py <patch> %s <scale>, quick tier, scratch worktree through VERIF_REPO)" % prop:
                           {"first_trial": first, "after_strengthening": None, "violation_keys": keys}},
            "demo": demos}
    json.dump(meta, open(os.path.join(dst, "meta.json"), "w"), indent=1)
    print(sid)


if __name__ == "__main__":
    main()
