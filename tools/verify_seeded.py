#!/usr/bin/env python3
"""tools/verify_seeded.py [ids...]: re-confirm every seeded change in a scratch worktree of /repo (never /repo itself):
the patch applies to HEAD, the tree builds, the 295 baseline tests pass, the demonstration fails with the change and passes without it.
Writes seeded/<id>/verified.json."""
import json
import os
import re
import shutil
import subprocess
import sys

ROOT = os.path.dirname(os.path.dirname(os.path.abspath(__file__)))
WT = os.environ.get("VERIF_VERIFY_WT", "/tmp/wt/verify")


def sh(cmd, cwd=None, timeout=3600):
    p = subprocess.run(cmd, shell=True, cwd=cwd, capture_output=True, text=True, timeout=timeout)
    return p.returncode, (p.stdout + p.stderr)


def run_demo(d, include_dir, chai_bin):
    if os.path.exists(os.path.join(d, "demo.sh")) and os.path.exists(os.path.join(d, "demo.cpp")):
        # a script that builds demo.cpp itself (e.g. with ThreadSanitizer): first argument is the include directory
        rc, out = sh("bash %s %s %s" % (os.path.join(d, "demo.sh"), include_dir, chai_bin), timeout=3000)
        return rc, out[-1500:]
    if os.path.exists(os.path.join(d, "demo.chai")):
        rc, out = sh("%s %s" % (chai_bin, os.path.join(d, "demo.chai")), timeout=300)
        return rc, out[-1500:]
    if os.path.exists(os.path.join(d, "demo.cpp")):
        exe = WT + "_demo_bin"
        rc, out = sh("g++ -std=c++20 -O0 -w -I%s %s -o %s -pthread -ldl" % (include_dir, os.path.join(d, "demo.cpp"), exe), timeout=1200)
        if rc:
            return 999, "demo does not compile: " + out[-800:]
        rc, out = sh(exe, cwd=d, timeout=300)
        return rc, out[-1500:]
    if os.path.exists(os.path.join(d, "demo.sh")):
        rc, out = sh("bash %s %s" % (os.path.join(d, "demo.sh"), chai_bin), timeout=600)
        return rc, out[-1500:]
    return 998, "no demo"


def failed(rc, out):
    return rc != 0 or re.search(r"\bFAIL", out) is not None


def main():
    ids = sys.argv[1:] or sorted(os.listdir(os.path.join(ROOT, "seeded")))
    sh("git -C /repo worktree remove --force %s" % WT)
    rc, out = sh("git -C /repo worktree add --detach %s HEAD" % WT)
    assert rc == 0, out
    rc, out = sh("cmake -G Ninja -S . -B _b >/dev/null && nice cmake --build _b -j8 2>&1 | tail -1", cwd=WT, timeout=7200)
    print("baseline build:", out.strip()[-100:], flush=True)
    for i in ids:
        d = os.path.join(ROOT, "seeded", i)
        if not os.path.isdir(d) or not os.path.exists(os.path.join(d, "patch.diff")):
            continue
        res = {"id": i}
        sh("git checkout -- .", cwd=WT)
        # without the change
        res["demo_without_patch"] = dict(zip(("exit", "output"), run_demo(d, "/repo/include", "/repo/_build/chai")))
        rc, out = sh("git apply %s" % os.path.join(d, "patch.diff"), cwd=WT)
        if rc:
            rc, out = sh("git apply -3 %s" % os.path.join(d, "patch.diff"), cwd=WT)
        res["patch_applies_to_head"] = rc == 0
        if rc == 0:
            rc, out = sh("nice cmake --build _b -j8 2>&1 | tail -2", cwd=WT, timeout=7200)
            res["builds"] = "error" not in out.lower() or "Linking" in out
            rc, out = sh("ctest --test-dir _b -j8 --timeout 900 2>&1 | tail -4", cwd=WT, timeout=7200)
            m = re.search(r"(\d+)% tests passed, (\d+) tests failed out of (\d+)", out)
            res["ctest"] = m.group(0) if m else out[-200:]
            res["ctest_all_pass"] = bool(m and m.group(2) == "0" and m.group(3) == "295")
            res["demo_with_patch"] = dict(zip(("exit", "output"), run_demo(d, os.path.join(WT, "include"), os.path.join(WT, "_b", "chai"))))
            res["confirmed"] = bool(res["ctest_all_pass"] and failed(res["demo_with_patch"]["exit"], res["demo_with_patch"]["output"])
                                    and not failed(res["demo_without_patch"]["exit"], res["demo_without_patch"]["output"]))
        else:
            res["confirmed"] = False
            res["apply_error"] = out[-400:]
        with open(os.path.join(d, "verified.json"), "w") as fh:
            json.dump(res, fh, indent=1)
        mp = os.path.join(d, "meta.json")
        if os.path.exists(mp):
            meta = json.load(open(mp))
            meta.setdefault("what_i_ran", {})["confirmation (tools/verify_seeded.py, scratch worktree /tmp/wt/verify of /repo HEAD)"] = {
                "patch_applies_to_head": res.get("patch_applies_to_head"), "builds": res.get("builds"), "baseline_tests": res.get("ctest"),
                "demo_without_patch_exit": res["demo_without_patch"]["exit"], "demo_with_patch_exit": res.get("demo_with_patch", {}).get("exit"),
                "confirmed": res["confirmed"]}
            json.dump(meta, open(mp, "w"), indent=1)
        print(i, "confirmed" if res["confirmed"] else "NOT CONFIRMED", res.get("ctest"), flush=True)
    sh("git -C /repo worktree remove --force %s" % WT)
    shutil.rmtree(WT, ignore_errors=True)


if __name__ == "__main__":
    main()
