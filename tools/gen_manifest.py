#!/usr/bin/env python3
"""Regenerates MANIFEST.json from the table below (kept in one place so that it stays valid)."""
import json
import os
import subprocess

ROOT = os.path.dirname(os.path.dirname(os.path.abspath(__file__)))

CHECKS = {}
NA = {}


def check(pid, category, text, note, technique, design_ref):
    CHECKS[pid] = dict(category=category, text=text, note=note, technique=technique, design_ref=design_ref)


exec(open(os.path.join(ROOT, "tools", "manifest_table.py")).read())

repo_commits = subprocess.run(["git", "-C", "/repo", "log", "--format=%h %s"], capture_output=True, text=True).stdout.splitlines()
hook_commits = [l.split()[0] for l in repo_commits if l.split(" ", 1)[1].startswith("verif hook")]

m = {
    "version": 1,
    "setup_cmd": "python3 bin/check SETUP",
    "hooks": {
        "guard": "CHAISCRIPT_VERIF",
        "enable": "every harness TU is compiled from /repo's working tree with -DCHAISCRIPT_VERIF (lib/vlib.py FLAVOURS)",
        "baseline_off_cmd": "cmake -G Ninja -S /repo -B /repo/_build && cmake --build /repo/_build -j16 && ctest --test-dir /repo/_build -j8 --timeout 900",
        "source_commits": hook_commits,
        "add_only": True,
    },
    "engines": [
        {"name": "asan", "path": "lib/vlib.py", "serves_properties": sorted(CHECKS),
         "kind_free_text": "clang-14 ASan+UBSan(subset)+libstdc++ assertions builds of harness/*.cpp against /repo/include, fork-isolated case runner"},
        {"name": "tsan", "path": "lib/vlib.py", "serves_properties": [p for p in ("C13",) if p in CHECKS],
         "kind_free_text": "g++-12 ThreadSanitizer build of the threaded stress harness"},
    ],
    "checks": [],
    "not_applicable": [{"property_id": k, "reason": v} for k, v in sorted(NA.items())],
    "notes": "bin/check <ID> --tier quick|thorough ; VERIF_SEED seeds every random choice; exit 0 held / 1 VIOLATION / 2 machinery failure or inconclusive. See DESIGN.md.",
}
for pid in sorted(CHECKS):
    c = CHECKS[pid]
    m["checks"].append({
        "property_id": pid,
        "quick_cmd": "python3 bin/check %s --tier quick" % pid,
        "thorough_cmd": "python3 bin/check %s --tier thorough" % pid,
        "evidence_file": "evidence/%s.json" % pid,
        "replay_cmd_template": "python3 bin/check %s --replay {path}" % pid,
        "engine": "tsan" if pid == "C13" else "asan",
        "level_claimed": {"category": c["category"], "text": c["text"], "design_ref": c["design_ref"]},
        "level_note": c["note"],
        "technique": c["technique"],
    })
with open(os.path.join(ROOT, "MANIFEST.json"), "w") as fh:
    json.dump(m, fh, indent=1)
print("MANIFEST.json: %d checks, %d not_applicable" % (len(m["checks"]), len(m["not_applicable"])))
