#!/usr/bin/env python3
"""tools/try_mutant.py <patch.diff> <CHECK>[,<CHECK>...] [scale] [tier]
Applies a seeded change to a scratch worktree of /repo (never to /repo itself), runs the given checks against it through VERIF_REPO,
prints exit codes and violation keys, and removes the worktree and its build output."""
import hashlib
import os
import re
import shutil
import subprocess
import sys

ROOT = os.path.dirname(os.path.dirname(os.path.abspath(__file__)))


def main():
    patch = os.path.abspath(sys.argv[1])
    checks = sys.argv[2].split(",")
    scale = sys.argv[3] if len(sys.argv) > 3 else "1"
    tier = sys.argv[4] if len(sys.argv) > 4 else "quick"
    wt = "/tmp/wt/mut-%s" % hashlib.sha256(patch.encode()).hexdigest()[:8]
    subprocess.run(["git", "-C", "/repo", "worktree", "remove", "--force", wt], capture_output=True)
    r = subprocess.run(["git", "-C", "/repo", "worktree", "add", "--detach", wt, "HEAD"], capture_output=True, text=True)
    if r.returncode:
        print("worktree failed", r.stderr)
        return 2
    rc_all = 0
    try:
        r = subprocess.run(["git", "-C", wt, "apply", patch], capture_output=True, text=True)
        if r.returncode:
            r = subprocess.run(["git", "-C", wt, "apply", "-3", patch], capture_output=True, text=True)
        if r.returncode:
            print("PATCH-DOES-NOT-APPLY", r.stderr[:500])
            return 3
        env = dict(os.environ, VERIF_REPO=wt)
        for c in checks:
            p = subprocess.run([sys.executable, os.path.join(ROOT, "bin", "check"), c, "--tier", tier, "--scale", scale], capture_output=True, text=True, env=env)
            keys = sorted(set(re.findall(r"violation key=(\S+)", p.stderr + p.stdout)))
            last = [l for l in p.stdout.splitlines() if l.startswith(c)][-1:] or p.stdout.splitlines()[-2:]
            print("MUTANT %s CHECK %s exit=%d %s" % (os.path.basename(os.path.dirname(patch)), c, p.returncode, "DETECTED" if p.returncode == 1 else "MISSED" if p.returncode == 0 else "ERROR"))
            for k in keys[:8]:
                print("    key:", k)
            if p.returncode not in (0, 1):
                print("    ", (p.stdout + p.stderr)[-800:])
            print("    ", last)
            rc_all = max(rc_all, p.returncode)
    finally:
        subprocess.run(["git", "-C", "/repo", "worktree", "remove", "--force", wt], capture_output=True)
        alt = os.path.join(ROOT, "build", "alt-" + hashlib.sha256(wt.encode()).hexdigest()[:10])
        shutil.rmtree(alt, ignore_errors=True)
    return 0


if __name__ == "__main__":
    sys.exit(main())
