"""C09 - every evaluation leaves the engine's scope/call stack as it found it.
Fault enumeration: generated programs are sprinkled with calls to a harness callback cb(); run 0 counts the N invocations, runs
(i, kind) make invocation i throw each of 8 exception kinds (std::runtime_error, std::out_of_range, a non-std struct, int, Boxed_Value,
eval_error, bad_boxed_cast, arity_error). After every run the calling thread's stack shape (stacks, scopes, call-param lists, call depth,
conversion-saves flag - read through the engine's public accessors) must equal the shape before, get_locals() must be exactly the
top-level declarations of the statements completed before the failure (mark(k) statements identify them) and a fixed sanity script
must evaluate. Script-level throw/return/break/continue at every nesting position are part of the programs."""
import random

import gen
import printer
import vlib

LEVEL = "fault_enumeration"

PROFILE = {"w_try": 5, "w_switch": 4, "top_min": 5, "top_max": 12, "size": 260, "guards": 0.4, "w_throw": 3}

FRAME_TEMPLATES = [
    # callbacks reached through library callbacks, bind, operators, [], constructors, eval strings, catch/finally, attribute-held functions, guards
    "var fe{n} = [1, 2, 3]\nfor_each(fe{n}, fun(x) {{ cb(x) }})",
    "var mp{n} = map([1, 2, 3], fun(x) {{ cb(x) * 2 }})",
    "var fl{n} = filter([1, 2, 3, 4], fun(x) {{ cb(x) > 1 }})",
    "var fo{n} = foldl([1, 2, 3], fun(x, a) {{ cb(x) + a }}, 0)",
    "def tgt{n}(a, b) {{ cb(a) + b }}\nvar bd{n} = bind(tgt{n}, _, 5)\nvar br{n} = bd{n}(1) + bd{n}(2)",
    "class K{n} {{ attr v; def K{n}(x) {{ this.v = cb(x) }}; def get() {{ cb(this.v) }}; def `+`(o) {{ cb(1); K{n}(this.v + o.v) }}; def `[]`(i) {{ cb(i) + this.v }} }}\n"
    "var k{n} = K{n}(3)\nvar ks{n} = (k{n} + K{n}(4)).get()\nvar ki{n} = k{n}[2]",
    "var ev{n} = eval(\"cb(1) + cb(2)\")",
    "var es{n} = \"${{cb(5)}}-${{cb(6)}}\"",
    "try {{\n  cb(1)\n  throw(cb(2))\n}} catch (e) {{\n  cb(3)\n}} finally {{\n  cb(4)\n}}",
    "try {{ throw(1) }} catch (int e) : cb(e) == 1 {{ cb(2) }} catch (e) {{ cb(3) }}",
    "class H{n} {{ attr fn; def H{n}() {{ this.fn = fun(x) {{ cb(x) + 1 }} }} }}\nvar h{n} = H{n}()\nvar hr{n} = h{n}.fn(2)",
    "def gd{n}(x) : cb(x) > 0 {{ cb(x) + 1 }}\ndef gd{n}(x) {{ cb(0) }}\nvar g1{n} = gd{n}(1) + gd{n}(-1)",
    "var lc{n} = 0\nfor (var i = 0; cb(i) < 3; ++i) {{ lc{n} += cb(i) }}",
    "var wc{n} = 0\nwhile (cb(wc{n}) < 2) {{ ++wc{n}; if (cb(wc{n}) == 5) {{ break }} }}",
    "var sw{n} = 0\nswitch (cb(2)) {{ case (1) {{ sw{n} = cb(1) }} case (2) {{ sw{n} = cb(2) }} default {{ sw{n} = cb(3) }} }}",
    "def rec{n}(d) {{ if (d == 0) {{ return cb(0) }}; cb(d) + rec{n}(d - 1) }}\nvar rr{n} = rec{n}(3)",
    "var vec{n} = [cb(1), cb(2), [cb(3)]]\nvar mpp{n} = [\"a\": cb(4), \"b\": cb(5)]",
    "def mth{n}(a, b) {{ cb(a) + cb(b) }}\nvar mr{n} = 1.mth{n}(2)",
    "var tn{n} = cb(1) > 0 ? cb(2) : cb(3)\nvar an{n} = cb(1) > 5 && cb(2) > 0 || cb(3) > 0",
    "var lm{n} = fun(a) {{ var inner = fun[a](b) {{ cb(a) + cb(b) }}; inner(2) }}\nvar lr{n} = lm{n}(1)",
    "{{\n  var blk = cb(1)\n  {{ var blk2 = cb(2) }}\n}}",
    "if (cb(1) == 1) {{ var in_if = cb(2) }} else {{ var in_else = cb(3) }}",
    "for (x : [cb(1), cb(2)]) {{ var in_loop = cb(x) }}",
    # exits raised by the engine itself while it sets a call up: a parameter list / capture list that binds one name twice fails at call time
    "def dupp{n}(p, p) {{ cb(1) }}\nvar dr{n} = 0\ntry {{ dupp{n}(cb(1), 2) }} catch (e) {{ dr{n} = cb(2) }}",
    "var cap{n} = 1\nvar lamc{n} = fun[cap{n}](cap{n}) {{ cb(3) }}\nvar lcr{n} = 0\ntry {{ lamc{n}(cb(5)) }} catch (e) {{ lcr{n} = cb(4) }}",
    "def dupq{n}(a, b, a) {{ cb(1) }}\ndef callsdup{n}() {{ var loc = cb(7); dupq{n}(1, 2, 3) }}\nvar dq{n} = 0\ntry {{ callsdup{n}() }} catch (e) {{ dq{n} = cb(8) }}",
    # calls whose arguments go through a registered conversion (converted values are saved with the call's parameters)
    "var tk{n} = take_tok(cb(3)) + take_tok(4)",
    "var tt{n} = tok_then(cb(2), fun(x) {{ cb(x) + take_tok(x) }})",
    "def viatok{n}(x) {{ take_tok(x) + cb(x) }}\nvar vt{n} = viatok{n}(5)\ntake_tok(6)",
]


def build(rng, idx):
    g = gen.Gen(rng, PROFILE)
    g.funcs["cb"] = ([gen.INT], gen.INT, 1, False, [False])
    prog = g.program()
    stmts = []
    for st in prog:
        stmts.append(st)
    # sprinkle frame templates
    ns = rng.sample(range(1000, 9999), 5)       # distinct per program: two templates must not define the same names
    for ti in range(rng.randrange(2, 5)):
        t = rng.choice(FRAME_TEMPLATES).format(n=ns[ti])
        pos = rng.randrange(0, len(stmts) + 1)
        for j, line in enumerate(split_top(t)):
            stmts.insert(pos + j, ("raw", line))
    pr = printer.Printer()
    src = ""
    decls = []
    for k, st in enumerate(stmts):
        src += "mark(%d)\n" % k
        src += pr.s(st, 0)
        name = decl_name(st)
        if name:
            decls.append("%d:%s" % (k, name))
    src += "mark(%d)\n" % len(stmts)
    return ",".join(decls), src


def split_top(t):
    """split a template into top-level statements (lines at brace depth 0)"""
    out, cur, depth = [], [], 0
    for line in t.split("\n"):
        cur.append(line)
        depth += line.count("{") - line.count("}")
        if depth == 0:
            out.append("\n".join(cur))
            cur = []
    if cur:
        out.append("\n".join(cur))
    return out


def decl_name(st):
    if st[0] in ("decl", "auto", "ref"):
        return st[1]
    if st[0] == "raw":
        s = st[1].lstrip()
        if s.startswith("var ") and not s.startswith("var &"):
            return s[4:].split("=")[0].split()[0]
    return None


def run(ctx, tier, seed, scale=1.0):
    rng = random.Random(seed)
    quick = tier == "quick"
    exe = vlib.build("asan", ["c09_stack"])["c09_stack"]
    n = int((200 if quick else 10000) * scale)
    progs = [build(rng, i) for i in range(n)]
    cases = [["S", d, s] for d, s in progs]
    res, hf = vlib.run_cases(exe, cases, "c09", timeout_s=600, batch=2)
    ctx.harness_failures += hf
    vlib.judge_crashes(ctx, exe, cases, res, "c09", timeout_s=600, describe=lambda k: {"program": progs[k][1]})
    census = {}
    for (d, s), r in zip(progs, res):
        if r.status != "ok":
            ctx.evaluations += 1
            continue
        f = r.fields
        ninv, runs = int(f[0]), int(f[1])
        ctx.evaluations += runs
        ctx.count("callback-invocations-enumerated", min(ninv, 60))
        ctx.count("faulted-runs", runs - 1)
        if ninv >= 2:
            ctx.nontriv(s)
        if ninv > 60:
            ctx.count("programs-with-more-than-60-invocations(capped)")
        for kv in f[2].split(";"):
            if kv:
                k, v = kv.rsplit("=", 1)
                census[k] = census.get(k, 0) + int(v)
        for fail in f[3:]:
            p = fail.split("|")
            ctx.violation(p[0], {"program": s, "decls": d, "detail": p[1:]})
        if len(ctx.samples) < 3 and rng.random() < 0.02:
            ctx.sample({"program": s[:1500], "invocations": ninv, "faulted_runs": runs - 1})
    ctx.counters["outcome census (injected kind -> what left eval)"] = census
    ctx.min_events["faulted-runs"] = 2000
    if not ctx.samples:
        ctx.sample({"program": progs[0][1][:1500]})
    ctx.rule = ("one case = one generated program (chailang + 2-4 frame templates: for_each/map/filter/foldl callbacks, bind, operator overloads, "
                "[] and constructors of script classes, eval strings, interpolation, catch/finally bodies and guards, attribute-held functions, loop "
                "conditions, switch, recursion, container literals, method sugar, nested lambdas) in which *every* callback invocation (capped at 60) is "
                "made to throw each of 8 exception kinds in turn; evaluations = faulted runs; non-trivial = program with >= 2 invocations")
    ctx.exhaustive = False
    ctx.assumptions += ["the size of the parked conversion saves is not asserted (the engine legitimately keeps a converted temporary until the next call); "
                        "only the enabled flag is",
                        "per program the first 60 invocations are enumerated completely"]
