"""C14 - engine instances are isolated from one another.
Seeded histories of create / define / use / probe / destroy over 3 engine slots (heap or placement-new at a fixed, re-used address),
executed from the main thread and three long-lived worker threads (create and destroy may happen on different threads), with colliding
names for locals, globals, script functions, C++ functions, classes, user conversions, registered type names and the used file. A per-engine dictionary model predicts, for every
probe, whether a name is visible (and with which value) in a given engine on a given thread. ASan watches for stale per-thread state."""
import os
import random
import shutil

import vlib

LEVEL = "exploration"

LOCALS = ["va", "vb"]
GLOBALS = ["GA", "GB"]
FUNCS = ["fa", "fb"]
CPPS = ["ca"]
CLASSES = ["KA"]
CONVS = ["ca", "cb", "cc"]
TYPES = ["TA", "TB"]
NSLOTS = 3
NTHREADS = 4


class Eng:
    def __init__(self, inc):
        self.inc = inc
        self.locals = [dict() for _ in range(NTHREADS)]
        self.globals = {}
        self.funcs = {}
        self.cpps = {}
        self.classes = {}
        self.convs = {}
        self.types = {}
        self.used = False
        self.usecount = 0


def gen_history(rng, usedir):
    ops = []
    eng = [None] * NSLOTS
    inc = 0
    n = rng.randrange(8, 36)

    def probes_for(s, t, names=None):
        e = eng[s]
        out = []
        for nm in (names or LOCALS + GLOBALS):
            if nm in e.locals[t]:
                out.append("probe:%d:%d:%s:int:%d" % (s, t, nm, e.locals[t][nm]))
            elif nm in e.globals:
                out.append("probe:%d:%d:%s:int:%d" % (s, t, nm, e.globals[nm]))
            elif nm in LOCALS + GLOBALS:
                out.append("probe:%d:%d:%s:!ERR" % (s, t, nm))
        for nm in FUNCS:
            out.append("probe:%d:%d:%s(1):%s" % (s, t, nm, "int:%d" % (1 + e.funcs[nm]) if nm in e.funcs else "!ERR"))
        for nm in CPPS:
            out.append("probe:%d:%d:%s(1):%s" % (s, t, nm, "int:%d" % (1 + e.cpps[nm]) if nm in e.cpps else "!ERR"))
        for nm in CLASSES:
            out.append("probe:%d:%d:%s().get():%s" % (s, t, nm, "int:%d" % e.classes[nm] if nm in e.classes else "!ERR"))
        for nm in CONVS:
            out.append("probe:%d:%d:tgt_%s(mk_%s()):%s" % (s, t, nm, nm, "int:%d" % e.convs[nm] if nm in e.convs else "!ERR"))
        for nm in TYPES:
            out.append("probe:%d:%d:tyidx(type(\"%s\")):%s" % (s, t, nm, "int:%d" % e.types[nm] if nm in e.types else "!ERR"))
            out.append("probe:%d:%d:tyidx(%s_type):%s" % (s, t, nm, "int:%d" % e.types[nm] if nm in e.types else "!ERR"))
        return out

    for _ in range(n):
        live = [s for s in range(NSLOTS) if eng[s]]
        dead = [s for s in range(NSLOTS) if not eng[s]]
        k = rng.random()
        if (k < 0.22 and dead) or not live:
            s = rng.choice(dead)
            inc += 1
            eng[s] = Eng(inc)
            ops.append("create:%d:%s" % (s, rng.choice(["fixed", "fixed", "heap"])))
            # a fresh engine must be empty on every thread
            for t in range(NTHREADS):
                ops += probes_for(s, t)
            continue
        s = rng.choice(live)
        e = eng[s]
        t = rng.randrange(NTHREADS)
        if k < 0.32:
            ops.append("destroy:%d:%d" % (s, t))
            eng[s] = None
            continue
        v = e.inc * 1000 + rng.randrange(1000)
        if k < 0.55:
            nm = rng.choice(LOCALS)
            if nm not in e.locals[t]:
                e.locals[t][nm] = v
                ops.append("eval:%d:%d:var %s = %d" % (s, t, nm, v))
        elif k < 0.65:
            nm = rng.choice(GLOBALS)
            if nm not in e.globals and all(nm not in l for l in e.locals):
                e.globals[nm] = v
                ops.append("eval:%d:%d:global %s = %d" % (s, t, nm, v))
        elif k < 0.75:
            nm = rng.choice(FUNCS)
            if nm not in e.funcs:
                e.funcs[nm] = v
                ops.append("eval:%d:%d:def %s(x) { x + %d }" % (s, t, nm, v))
        elif k < 0.82:
            nm = rng.choice(CPPS)
            if nm not in e.cpps:
                e.cpps[nm] = v
                ops.append("addfn:%d:%d:%s:%d" % (s, t, nm, v))
        elif k < 0.86:
            nm = rng.choice(CONVS)
            if nm not in e.convs:
                e.convs[nm] = v
                ops.append("addconv:%d:%d:%s:%d" % (s, t, nm, v))
        elif k < 0.89:
            nm = rng.choice(TYPES)
            if nm not in e.types:
                e.types[nm] = rng.randrange(3)
                ops.append("addtype:%d:%d:%s:%d" % (s, t, nm, e.types[nm]))
        elif k < 0.93:
            nm = rng.choice(CLASSES)
            if nm not in e.classes:
                e.classes[nm] = v
                ops.append("eval:%d:%d:class %s { def %s() { }; def get() { %d } }" % (s, t, nm, nm, v))
        else:
            if not e.used:
                e.used = True
                e.usecount += 1
            ops.append("use:%d:%d:u.chai" % (s, t))
            ops.append("usecount:%d:0:%d" % (s, e.usecount))
        # probe every live engine on a few threads (always the thread that just acted)
        for s2 in range(NSLOTS):
            if eng[s2] and (s2 == s or rng.random() < 0.6):
                for t2 in {t, rng.randrange(NTHREADS)}:
                    ops += probes_for(s2, t2)
    return ops


def run(ctx, tier, seed, scale=1.0):
    rng = random.Random(seed)
    quick = tier == "quick"
    exe = vlib.build("asan", ["c14_isolation"])["c14_isolation"]
    usedir = os.path.join(vlib.BUILD, "scratch", "c14use-%d" % os.getpid())
    shutil.rmtree(usedir, ignore_errors=True)
    os.makedirs(usedir)
    with open(os.path.join(usedir, "u.chai"), "w") as fh:
        fh.write("bump()\n")
    try:
        n = int((350 if quick else 60000) * scale)
        hist = [gen_history(rng, usedir) for _ in range(n)]
        cases = [["H", usedir] + h for h in hist]
        res, hf = vlib.run_cases(exe, cases, "c14", timeout_s=300, batch=4)
        ctx.harness_failures += hf
        vlib.judge_crashes(ctx, exe, cases, res, "c14", timeout_s=300, describe=lambda k: {"history": hist[k]})
        for h, r in zip(hist, res):
            ctx.evaluations += 1
            if r.status != "ok":
                continue
            f = r.fields
            ctx.count("probes", int(f[0]))
            ctx.count("engine-creations", sum(1 for o in h if o.startswith("create")))
            ctx.count("creations-at-reused-address", max(0, sum(1 for o in h if o.startswith("create") and o.endswith("fixed")) - 1))
            if sum(1 for o in h if o.startswith("create")) >= 2:
                ctx.nontriv("|".join(h))
            for fail in f[1:]:
                p = fail.split("|")
                # discriminate by what leaked/was lost and where the probe ran
                step = p[1]
                thread = "main-thread" if ":0:" in step.split("[")[1][:14] else "worker-thread"
                what = "local" if any(":%s:" % nm in step for nm in LOCALS) else ("global" if any(":%s:" % nm in step for nm in GLOBALS) else ("conversion" if ("tgt_" in step or "addconv" in step) else ("type-name" if ("tyidx" in step or "addtype" in step) else "function-or-class")))
                ctx.violation("%s:%s:%s" % (p[0], what, thread), {"history": h, "failed": p[1:]})
            if len(ctx.samples) < 3 and rng.random() < 0.01:
                ctx.sample({"history": h[:40]})
        ctx.min_events["probes"] = 5000
        ctx.min_events["creations-at-reused-address"] = 50
        if not ctx.samples:
            ctx.sample({"history": hist[0][:40]})
    finally:
        shutil.rmtree(usedir, ignore_errors=True)
    ctx.rule = ("one case = one history of 8-35 operations over 3 engine slots (fixed address re-used by placement new, or heap) and 4 threads (main + 3 "
                "long-lived workers) with colliding names (locals, globals, script functions, C++ functions, classes, user type conversions, registered type names bound to a different C++ type per engine); after every operation all live engines are probed for every name on the acting thread and a "
                "random one; non-trivial iff the history creates >= 2 engines; distinct by operation list")
    ctx.assumptions += ["operations are executed one at a time (on different threads); concurrency is C13's subject"]
