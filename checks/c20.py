"""C20 - run-time errors point at the construct that failed.
Generated multi-line programs with layout noise (blank lines, comments, varying indentation, tabs, CRLF) whose functions are spread over
several eval() chunks with distinct file names and over use()d files; a call chain of depth 1-6 (defs, global lambdas, different call-site
forms beginning with an identifier) leads to one injected fault (unresolvable identifier, call of an unknown function, call with no
matching overload, wrong arity) at a position known from the printer's own source map. Oracle: call_stack[0] starts exactly there, with
that file name, and the Fun_Call entries of the call stack are exactly the enclosing call sites, innermost first."""
import os
import random
import shutil

import vlib

LEVEL = "exploration"


class Chunk:
    def __init__(self, name, eol):
        self.name = name
        self.eol = eol
        self.lines = []

    def add(self, text):
        """append one line, return its 1-based line number"""
        self.lines.append(text)
        return len(self.lines)

    def noise(self, rng):
        for _ in range(rng.choice([0, 0, 1, 2])):
            self.add(rng.choice(["", "", "// a comment", "   ", "# another", "/* block */", "\t", "  // indented comment",
                                 # an interpolated string re-enters the parser in the middle of the chunk; it must not disturb the chunk's positions or file name
                                 "\"n${1 + 1}\"", "  \"${2}\" + \"t\""]))

    def source(self):
        return self.eol.join(self.lines) + self.eol


def build(rng, idx, usedir):
    depth = rng.randrange(1, 7)
    nchunks = rng.randrange(1, 4)
    chunks = []
    for c in range(nchunks):
        as_file = rng.random() < 0.25
        name = os.path.join(usedir, "u%d_%d.chai" % (idx, c)) if as_file else rng.choice(["chunk%d.chai" % c, "lib/part_%d" % c, "__EVAL__%d" % c])
        chunks.append((Chunk(name, rng.choice(["\n", "\n", "\r\n"])), as_file))
    main = Chunk(rng.choice(["main.chai", "__EVAL__", "top"]), rng.choice(["\n", "\r\n"]))
    fault_kind = rng.choice(["ident", "ident", "unknown-fn", "no-overload", "arity"])
    sites = []          # (file, line, col) of call sites, innermost first
    fault = None
    prev_callee = None
    for level in range(depth):
        ch, _ = rng.choice(chunks)
        kind = rng.choice(["def", "def", "lambda"])
        fname = "fn%d_%d" % (idx % 1000, level)
        ch.noise(rng)
        ind0 = rng.choice(["", "", "  "])
        if kind == "def":
            ch.add("%sdef %s(a) {" % (ind0, fname))
        else:
            ch.add("%sglobal %s = fun(a) {" % (ind0, fname))
        for fi in range(rng.randrange(0, 3)):
            # filler names are unique within the function (a repeated name would be a 'Variable redefined' fault of its own)
            ch.add("%s  %s" % (ind0, rng.choice(["var t%d_%d = a + %d" % (rng.randrange(1000), fi, rng.randrange(9)), "// filler", "", "a + 1", "var s%d_%d = \"x\"" % (rng.randrange(1000), fi),
                                                     "var i%d_%d = \"a=${a}.\"" % (rng.randrange(1000), fi), "\"${a + 1}\""])))
            ch.noise(rng)
        ind = ind0 + rng.choice(["  ", "    ", "\t", "      "])
        if level == 0:
            # the fault itself
            if fault_kind == "ident":
                pre = rng.choice(["var q = a + ", "return a * 2 + ", "a - ", "var q = [a, ", "if (a > ", "var q = a + 1; var z = ", "var q = -", "a * (2 + "])
                post = {"var q = [a, ": "]", "a * (2 + ": ")", "if (a > ": ") { 1 }"}.get(pre, "")
                ln = ch.add(ind + pre + "undefined_ident_%d" % idx + post)
                fault = (ch.name, ln, len(ind) + len(pre) + 1)
            elif fault_kind == "unknown-fn":
                pre = rng.choice(["", "var q = ", "return ", "a + "])
                ln = ch.add(ind + pre + "unknown_function_%d(a)" % idx)
                fault = (ch.name, ln, len(ind) + len(pre) + 1)
            elif fault_kind == "no-overload":
                pre = rng.choice(["", "var q = ", "return "])
                ln = ch.add(ind + pre + "takes_string_only(a)")
                fault = (ch.name, ln, len(ind) + len(pre) + 1)
            else:
                pre = rng.choice(["", "var q = ", "return "])
                ln = ch.add(ind + pre + "two_params(a)")
                fault = (ch.name, ln, len(ind) + len(pre) + 1)
        else:
            form = rng.choice(["bare", "decl", "ret", "plus", "cond", "assign"])
            pre, post = {"bare": ("", ""), "decl": ("var r = ", " + 1"), "ret": ("return ", ""), "plus": ("a + ", ""),
                         "cond": ("if (", " > 0) { 1 }"), "assign": ("var w = 0; w = ", "")}[form]
            ln = ch.add(ind + pre + "%s(a + 1)" % prev_callee + post)
            sites.append((ch.name, ln, len(ind) + len(pre) + 1))
        for _ in range(rng.randrange(0, 2)):
            ch.add("%s  a" % ind0)
        ch.add(ind0 + "}")
        ch.noise(rng)
        prev_callee = fname
    # helper functions needed by the faults
    helper = "def takes_string_only(string s) { s }\ndef two_params(x, y) { x }\n"
    main.noise(rng)
    for mi in range(rng.randrange(0, 3)):
        # unique names: a repeated top-level name would be a 'Variable redefined' fault ahead of the planted one
        main.add(rng.choice(["var m%d_%d = %d" % (rng.randrange(1000), mi, rng.randrange(9)), "// top level", ""]))
    ind = rng.choice(["", "  ", "\t"])
    pre = rng.choice(["", "var top = ", "print(1); "])
    ln = main.add(ind + pre + "%s(3)" % prev_callee)
    sites.append((main.name, ln, len(ind) + len(pre) + 1))
    main.add("var after = 1")
    fields = []
    files = []
    fields += ["helpers", helper]
    for ch, as_file in chunks:
        if not ch.lines:
            continue
        if as_file:
            files.append((ch.name, ch.source()))
            fields += ["@use:" + ch.name, ""]
        else:
            fields += [ch.name, ch.source()]
    fields += [main.name, main.source()]
    return {"fields": ["L", str(len(fields) // 2)] + fields, "files": files, "fault": fault, "sites": sites, "kind": fault_kind, "depth": depth}


def run(ctx, tier, seed, scale=1.0):
    rng = random.Random(seed)
    quick = tier == "quick"
    exe = vlib.build("asan", ["c20_loc"])["c20_loc"]
    usedir = os.path.join(vlib.BUILD, "scratch", "c20files-%d" % os.getpid())
    shutil.rmtree(usedir, ignore_errors=True)
    os.makedirs(usedir)
    try:
        n = int((4000 if quick else 200000) * scale)
        progs = [build(rng, i, usedir) for i in range(n)]
        for p in progs:
            for path, src in p["files"]:
                with open(path, "w", newline="") as fh:
                    fh.write(src)
        cases = [p["fields"] for p in progs]
        res, hf = vlib.run_cases(exe, cases, "c20", timeout_s=120, batch=32)
        ctx.harness_failures += hf
        vlib.judge_crashes(ctx, exe, cases, res, "c20", timeout_s=120, describe=lambda k: {"chunks": progs[k]["fields"][2:]})
        for p, r in zip(progs, res):
            ctx.evaluations += 1
            if r.status != "ok":
                continue
            f = r.fields
            wit = {"chunks": [(p["fields"][i], p["fields"][i + 1]) for i in range(2, len(p["fields"]), 2)], "fault": p["fault"], "call_sites_innermost_first": p["sites"],
                   "fault_kind": p["kind"], "got": f[:2], "call_stack": f[2:]}
            ctx.count("fault:" + p["kind"])
            ctx.count("depth:%d" % p["depth"])
            if any("${" in p["fields"][i + 1] for i in range(2, len(p["fields"]) - 1, 2)):
                ctx.count("programs-with-interpolated-string")
            if f[0] != "eval_error":
                ctx.violation("no-eval_error:%s" % p["kind"], wit)
                continue
            ctx.nontriv(repr(p["fields"]))
            stack = [x.split("|") for x in f[2:]]
            if not stack:
                ctx.violation("empty-call-stack:%s" % p["kind"], wit)
                continue
            t0, file0, l0, c0 = stack[0]
            if (file0, int(l0), int(c0)) != p["fault"]:
                what = "file" if file0 != p["fault"][0] else ("line" if int(l0) != p["fault"][1] else "column")
                ctx.violation("error-location:%s:%s" % (what, p["kind"]), wit)
                continue
            calls = [(x[1], int(x[2]), int(x[3])) for x in stack if x[0] == "Fun_Call"]
            if calls and calls[0] == p["fault"]:
                calls = calls[1:]           # the failing call expression itself
            if calls != p["sites"]:
                if len(calls) != len(p["sites"]):
                    ctx.violation("call-stack:wrong-number-of-call-sites", wit)
                else:
                    i = [a != b for a, b in zip(calls, p["sites"])].index(True)
                    a, b = calls[i], p["sites"][i]
                    what = "file" if a[0] != b[0] else ("line" if a[1] != b[1] else "column")
                    ctx.violation("call-stack:call-site-%s" % what, wit)
            if len(ctx.samples) < 3 and rng.random() < 0.002:
                ctx.sample({"chunks": wit["chunks"], "fault": p["fault"], "sites": p["sites"]})
        if not ctx.samples:
            ctx.sample({"chunks": progs[0]["fields"][2:], "fault": progs[0]["fault"], "sites": progs[0]["sites"]})
    finally:
        shutil.rmtree(usedir, ignore_errors=True)
    ctx.min_events["programs-with-interpolated-string"] = 20
    ctx.rule = ("one case = functions in a call chain of depth 1-6 (def / global lambda; call-site forms: bare, declaration, return, operand, condition, "
                "assignment) spread over 1-3 chunks (eval with distinct file names, or use()d files; LF or CRLF; blank lines, // # /* */ comments, spaces and "
                "tabs, interpolated strings that re-enter the parser) with one fault (unresolvable identifier in 8 expression contexts, unknown function, no matching overload, wrong arity); positions come "
                "from the generator's own line/column bookkeeping; every case is non-trivial; distinct by source")
    ctx.assumptions += ["call sites begin with an identifier (the property's restriction); method-call sugar and calls nested in argument lists are not generated"]
