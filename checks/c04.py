"""C04 - a name resolves to its innermost live binding; lookup caches are invisible.
Two monitors per program: (i) differential - the same source on an engine with the per-node lookup hints in normal use and on one
where hook H1 forces every identifier to be resolved by name; (ii) audit - a third run in which the hook resolves every lookup both
ways and counts, per code path, whether the hint designates the by-name answer. Workload: bodies evaluated repeatedly under changing
scope layouts (eval()-injected variables, conditional declarations, recursion, lambdas called free / bound / as attribute, globals and
functions shadowed later) plus a layout-stable control group from the general generator."""
import itertools
import random

import gen
import printer
import vlib

LEVEL = "exploration"
NAMES = ["class", "result", "reason", "stdout", "ticks"]


def call_orders(rng, calls):
    if len(calls) <= 3 and rng.random() < 0.7:
        return list(rng.choice(list(itertools.permutations(calls)))) + [rng.choice(calls)]
    out = list(calls)
    rng.shuffle(out)
    return out + [rng.choice(calls) for _ in range(rng.randrange(0, 3))]


def t_inject_before_local(rng, n):
    k = rng.randrange(1, 7)
    inj = "".join('  if (b > %d) { eval("var h%d_%d = %d") }\n' % (i, n, i, 100 + i) for i in range(k))
    body = "def g%d(b) {\n%s  var a = %d\n  var c = a + 1\n  a + c + b\n}\n" % (n, inj, rng.randrange(1, 9))
    calls = ["print(g%d(%d))" % (n, b) for b in rng.sample(range(0, k + 2), min(3, k + 1))]
    return body + "\n".join(call_orders(rng, calls)) + "\n"


def t_inject_in_loop(rng, n):
    hit = rng.randrange(0, 4)
    return ("for (var i%d = 0; i%d < 4; ++i%d) {\n  if (i%d == %d) { eval(\"var extra%d = 1000\") }\n  var t%d = i%d * 2\n  var u%d = t%d + 1\n  print(t%d + u%d)\n}\n"
            % (n, n, n, n, hit, n, n, n, n, n, n, n))


def t_global_shadowed_later(rng, n):
    first = rng.choice([True, False])
    calls = ["print(h%d(false))" % n, "print(h%d(true))" % n, "print(h%d(false))" % n]
    if not first:
        calls = call_orders(rng, calls)
    return ("global G%d = 1\ndef h%d(b) {\n  if (b) { eval(\"var G%d = 50\") }\n  G%d + 0\n}\n" % (n, n, n, n)) + "\n".join(calls) + "\n"


def t_function_shadowed_later(rng, n):
    calls = call_orders(rng, ["print(k%d(false))" % n, "print(k%d(true))" % n])
    return ("def fn%d() { 7 }\ndef k%d(b) {\n  if (b) { eval(\"var fn%d = fun() { 9 }\") }\n  fn%d()\n}\n" % (n, n, n, n)) + "\n".join(calls) + "\n"


def t_unknown_then_local(rng, n):
    """recorded finding, third shape: the first evaluation does not find the name at all; a local of that name injected later is ignored"""
    calls = ["try { print(uk%d(false)) } catch (e) { print(\"not found\") }" % n, "try { print(uk%d(true)) } catch (e) { print(\"not found\") }" % n]
    calls = [calls[0], calls[1]] + [rng.choice(calls) for _ in range(rng.randrange(0, 2))]
    return ("def uk%d(b) {\n  if (b) { eval(\"var zz%d = 3\") }\n  return zz%d\n}\n" % (n, n, n)) + "\n".join(calls) + "\n"


def t_nearer_binding(rng, n):
    calls = call_orders(rng, ["m%d(false)" % n, "m%d(true)" % n])
    return ("def m%d(b) {\n  var x = 1\n  {\n    var pad = 0\n    if (b) { eval(\"var x = 2\") }\n    print(x + pad)\n  }\n  print(x)\n}\n" % n) + "\n".join(calls) + "\n"


def t_lambda_call_forms(rng, n):
    k = rng.randrange(1, 9)
    src = "var lf%d = fun(s, x) { var loc = x + %d; loc * 2 }\n" % (n, k)
    src += "class O%d { attr fn; def O%d() { } }\nvar o%d = O%d()\no%d.fn = lf%d\n" % (n, n, n, n, n, n)
    forms = ["print(lf%d(0, 3))" % n, "print(o%d.fn(4))" % n, "var bf%d = bind(lf%d, 0, _); print(bf%d(5))" % (rng.randrange(10**6), n, 0)]
    forms[2] = "print(bind(lf%d, 0, _)(5))" % n
    return src + "\n".join(call_orders(rng, forms)) + "\n"


def t_method_and_free(rng, n):
    src = "def both%d(a, b) { var t = a + b; t * 2 }\n" % n
    forms = ["print(both%d(1, 2))" % n, "print(1.both%d(2))" % n, "print(3.both%d(4))" % n]
    return src + "\n".join(call_orders(rng, forms)) + "\n"


def t_recursion_layout(rng, n):
    return ("def r%d(d, b) {\n  if (b && d == 1) { eval(\"var deep%d = 5\") }\n  var loc = d * 10\n  if (d > 0) { r%d(d - 1, b) }\n  print(loc)\n  loc\n}\n"
            "r%d(%d, false)\nr%d(%d, true)\nr%d(1, false)\n" % (n, n, n, n, rng.randrange(0, 4), n, rng.randrange(1, 4), n))


def t_conditional_decl(rng, n):
    return ("def cd%d(b) {\n  b && (var early%d = 7)\n  var late = 3\n  late + 1\n}\nprint(cd%d(true))\nprint(cd%d(false))\nprint(cd%d(true))\n" % (n, n, n, n, n))


def t_capture_vs_injected(rng, n):
    return ("var cap%d = %d\nvar cl%d = fun[cap%d](b) {\n  if (b) { eval(\"var inj%d = 1\") }\n  var w = cap%d + 1\n  w\n}\nprint(cl%d(false))\nprint(cl%d(true))\nprint(cl%d(false))\n"
            % (n, rng.randrange(1, 50), n, n, n, n, n, n, n))


def t_same_name_different_scopes(rng, n):
    return ("def sc%d(k) {\n  var v = 1\n  if (k == 1) { var v = 2; print(v) }\n  if (k == 2) { var z = 0; var v = 3; print(v) }\n  for (var i = 0; i < 2; ++i) { var v = 10 + i; print(v) }\n  print(v)\n}\n"
            "sc%d(0)\nsc%d(1)\nsc%d(2)\nsc%d(1)\n" % (n, n, n, n, n))


def t_function_then_global(rng, n):
    """a name that resolves to a function while only the function exists must resolve to the global of that name once one is installed -
    also in code (function body, stored lambda, loop body) that has run before"""
    hit = rng.randrange(1, 4)
    src = ("def tf%d(x) { return x + 1 }\ndef ap%d(x) { return tf%d(x) }\nvar st%d = fun(x) { return tf%d(x) * 2 }\n" % (n, n, n, n, n))
    src += "print(ap%d(2))\nprint(st%d(2))\n" % (n, n)
    if rng.random() < 0.5:
        src += "global tf%d = fun(x) { return x * 100 }\n" % n
    else:
        src += "eval(\"global tf%d = fun(x) { return x * 100 }\")\n" % n
    src += "print(ap%d(2))\nprint(st%d(2))\nprint(ap%d(3))\n" % (n, n, n)
    src += ("def sc%d(x) { return x }\nvar seen%d = []\nfor (var i%d = 0; i%d < 5; ++i%d) {\n  if (i%d == %d) { eval(\"global sc%d = fun(x) { return 7 }\") }\n"
            "  seen%d.push_back(sc%d(i%d))\n}\nprint(seen%d)\n" % (n, n, n, n, n, n, hit, n, n, n, n, n))
    return src


def t_moved_slot_and_shadow(rng, n):
    """the outer variable changes slot (a variable injected ahead of it) while an inner block gains a variable of the same name: the stale
    hint must not be repaired inside the scope it pointed to. A shadowing call never follows a call with the same padding (that sequence
    is the recorded finding local-hint:nearer-binding-declared-later and is generated only as a probe)."""
    src = ("def rd%d(pad, shadow) {\n  if (pad) { eval(\"var padding = 0\") }\n  var x = 1\n  {\n    var inner = 0\n    if (shadow) { eval(\"var x = 2\") }\n"
           "    return x\n  }\n}\n" % n)
    src += ("def wr%d(pad, shadow) {\n  if (pad) { eval(\"var padding = 0\") }\n  var x = 1\n  {\n    var inner = 0\n    if (shadow) { eval(\"var x = 2\") }\n"
            "    x = x + 10\n    inner = x\n    print(inner)\n  }\n  return x\n}\n" % n)
    for fn in ("rd", "wr"):
        prev_pad = None
        for _ in range(rng.randrange(3, 8)):
            pad = rng.random() < 0.5
            shadow = rng.random() < 0.5
            if shadow and prev_pad is not None and pad == prev_pad:
                pad = not pad
            if shadow and prev_pad is None:
                shadow = False
            src += "print(%s%d(%s, %s))\n" % (fn, n, "true" if pad else "false", "true" if shadow else "false")
            prev_pad = pad
    return src


LAYOUT_CHANGING = [t_function_then_global, t_moved_slot_and_shadow, t_inject_before_local, t_inject_in_loop, t_lambda_call_forms, t_method_and_free, t_recursion_layout, t_conditional_decl,
                   t_capture_vs_injected, t_same_name_different_scopes]
# the only shapes that can legitimately show the two recorded findings: generated alone, never mixed with other templates, so that a
# difference in any other program is reported whatever the audit hook says
FINDING_PROBES = [t_global_shadowed_later, t_function_shadowed_later, t_nearer_binding, t_unknown_then_local]

STABLE_PROFILE = {"w_try": 2, "top_min": 6, "top_max": 16}


def gen_program(rng, idx):
    if rng.random() < 0.3:
        g = gen.Gen(rng, STABLE_PROFILE)
        g.funcs["tick"] = ([gen.INT], gen.INT, 1, False, [False])
        return "stable", printer.Printer().program(g.program())
    if rng.random() < 0.12:
        t = rng.choice(FINDING_PROBES)
        return "probe:" + t.__name__[2:], t(rng, rng.randrange(1000, 9999))
    parts = []
    kinds = []
    ns = rng.sample(range(1000, 9999), 3)       # distinct per program
    for ti in range(rng.randrange(1, 4)):
        t = rng.choice(LAYOUT_CHANGING)
        parts.append(t(rng, ns[ti]))
        kinds.append(t.__name__[2:])
    return "+".join(sorted(set(kinds))), "".join(parts)


def run(ctx, tier, seed, scale=1.0):
    rng = random.Random(seed)
    quick = tier == "quick"
    exe = vlib.build("asan", ["c04_lookup"])["c04_lookup"]
    n = int((2500 if quick else 200000) * scale)
    progs = [gen_program(rng, i) for i in range(n)]
    cases = [["L", s] for _, s in progs]
    res, hf = vlib.run_cases(exe, cases, "c04", timeout_s=120, batch=16)
    ctx.harness_failures += hf
    vlib.judge_crashes(ctx, exe, cases, res, "c04", timeout_s=120, describe=lambda k: {"kind": progs[k][0], "program": progs[k][1]})
    tot = {}
    for (kind, s), r in zip(progs, res):
        ctx.evaluations += 1
        if r.status != "ok":
            continue
        f = r.fields
        a, b, c, audit = f[:5], f[5:10], f[10:15], f[15]
        au = dict((k, int(v)) for k, v in (kv.split("=") for kv in audit.split(";")))
        for k, v in au.items():
            tot[k] = tot.get(k, 0) + v
        ctx.count("group:" + ("layout-stable" if kind == "stable" else "layout-changing"))
        if au["agree"] > 0:
            ctx.nontriv(s)       # at least one hint was re-used
        wit = {"kind": kind, "program": s, "normal": dict(zip(NAMES, a)), "bypass": dict(zip(NAMES, b)), "audit": au}
        if a != c:
            ctx.violation("audit-run-differs-from-normal-run", wit)
        diff = [nm for nm, x, y in zip(NAMES, a, b) if x != y]
        probe = kind.startswith("probe:")
        if diff:
            if kind == "stable":
                ctx.violation("cache-visible:layout-stable-program:%s" % diff[0], wit)
            elif kind == "probe:unknown_then_local" and au["global_shadowed"] > 0 and au["nearer_local"] == 0:
                ctx.violation("cache-visible:not-found-hint:local-declared-later", wit)
            elif probe and au["global_shadowed"] > 0 and au["nearer_local"] == 0 and kind != "probe:nearer_binding":
                ctx.violation("cache-visible:global-or-function-hint:local-declared-later", wit)
            elif probe and au["nearer_local"] > 0 and au["global_shadowed"] == 0 and kind == "probe:nearer_binding":
                ctx.violation("cache-visible:local-hint:nearer-binding-declared-later", wit)
            else:
                ctx.violation("cache-visible:%s:%s" % (kind if probe else "layout-changing-program", diff[0]), wit)
        else:
            if (not probe) and (au["nearer_local"] or au["global_shadowed"]):
                ctx.violation("audit:hint-disagrees-with-by-name-lookup:%s" % ("stable" if kind == "stable" else "layout-changing"), wit)
            if kind == "stable" and au["stale_recovered"]:
                ctx.violation("audit:stale-hint-in-layout-stable-program", wit)
        if len(ctx.samples) < 4 and rng.random() < 0.003:
            ctx.sample({"kind": kind, "program": s[:900], "audit": au})
    ctx.counters["audit-totals"] = tot
    ctx.counters["hint-reuses-agreeing"] = tot.get("agree", 0)
    ctx.counters["stale-hints-recovered-by-name"] = tot.get("stale_recovered", 0)
    ctx.min_events["hint-reuses-agreeing"] = 1000
    ctx.min_events["stale-hints-recovered-by-name"] = 10
    if not ctx.samples:
        ctx.sample({"kind": progs[0][0], "program": progs[0][1][:900]})
    ctx.rule = ("70% layout-changing programs (1-3 templates: eval()-injected variables before/after locals, in loops, in recursion, shadowing a "
                "global / a function / an outer local later, a global installed over a function of the same name, an outer variable that moves slot while an inner block shadows it, lambdas called free/bound/as attribute, method vs free call, conditional declarations; "
                "seeded call orders incl. all permutations of <=3 calls) and 30% layout-stable chailang programs (control group); a program is "
                "non-trivial iff the audit run saw at least one hint re-use; distinct by source")
    ctx.assumptions += ["known-finding attribution is by code path + circumstance reported by the audit hook; a new defect that only ever shows as one of "
                        "the two listed shapes would be attributed to it (stated limit)"]
