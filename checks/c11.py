"""C11 - objects live exactly as long as something refers to them.
Programs over an instrumented C++ class (instance registry: constructed / destroyed ids, magic word, live set per tag) built from route
templates: create -> copy / alias / store in Vector, Map, attribute / capture / bind / pass by value, &, const&, *, shared_ptr / return /
convert (base class, user conversion) / hand to C++ (shared_ptr kept, std::function callbacks) -> drop the referrers in a generated way
(scope exit, clear, erase, exception unwind, release by C++) -> touch through every remaining referrer -> settle() -> expect_dead(tag) /
expect_alive(tag). Monitors: offline registry checks (exactly-once destruction, no use after destroy, dead-by-probe, nothing alive after
engine destruction), the magic word inside the object, ASan (heap-use-after-free, stack-use-after-return/scope)."""
import random

import vlib

LEVEL = "exploration"


def T(rng, t):
    """(snippet, tags used) - every snippet leaves no referrer to its tags behind unless it says expect_alive"""
    k = rng.randrange(0, 40)
    touch = rng.choice(["a.touch()", "by_ref(a)", "by_cref(a)", "by_ptr(a)", "by_cptr(a)", "by_value(a)", "a.tag", "by_ref(a) + by_cref(a)"])
    pool = [
        # plain scope
        "{{\n  var a = Tracked({t})\n  {touch}\n  var b = a\n  b.touch()\n  auto c = Tracked(a)\n  c.touch()\n}}\nsettle()\nexpect_dead({t})",
        # reference alias
        "{{\n  var a = Tracked({t})\n  var &r = a\n  r.touch()\n  {touch}\n}}\nsettle()\nexpect_dead({t})",
        # containers
        "{{\n  var v = []\n  v.push_back(Tracked({t}))\n  v.push_back(Tracked({t}))\n  v[0].touch()\n  v[1].touch()\n  expect_alive({t})\n  v.clear()\n  settle()\n  expect_dead({t})\n  v.push_back(Tracked({t1}))\n}}\nsettle()\nexpect_dead({t1})",
        "{{\n  var m = [\"k\": Tracked({t})]\n  m[\"k\"].touch()\n  m[\"j\"] = Tracked({t1})\n  m.erase(\"k\")\n  settle()\n  expect_dead({t})\n  expect_alive({t1})\n}}\nsettle()\nexpect_dead({t1})",
        "{{\n  var v = [Tracked({t}), Tracked({t1})]\n  v.pop_back()\n  settle()\n  expect_dead({t1})\n  v.erase_at(0)\n  settle()\n  expect_dead({t})\n}}",
        "{{\n  var v = [Tracked({t})]\n  var w = v\n  v.clear()\n  settle()\n  expect_alive({t})\n  w[0].touch()\n}}\nsettle()\nexpect_dead({t})",
        # attribute of a script object
        "class H{t} {{ attr t; def H{t}() {{ this.t = Tracked({t}) }}; def poke() {{ this.t.touch() }} }}\n{{\n  var h = H{t}()\n  h.poke()\n  h.t.touch()\n  var h2 = h\n  h2.poke()\n}}\nsettle()\nexpect_dead({t})",
        # closure outlives the scope that created the object
        "var fh{t} = []\n{{\n  var a = Tracked({t})\n  fh{t}.push_back(fun[a]() {{ a.touch() }})\n}}\nsettle()\nexpect_alive({t})\nfh{t}[0]()\nfh{t}.clear()\nsettle()\nexpect_dead({t})",
        # bind keeps its argument alive
        "var bh{t} = []\n{{\n  var a = Tracked({t})\n  bh{t}.push_back(bind(by_ref, a))\n}}\nsettle()\nexpect_alive({t})\nbh{t}[0]()\nbh{t}.clear()\nsettle()\nexpect_dead({t})",
        # return routes
        "def mk{t}() {{ var x = Tracked({t}); x.touch(); x }}\ndef mkr{t}() {{ return Tracked({t}) }}\n{{\n  var y = mk{t}()\n  y.touch()\n  mkr{t}().touch()\n  var z = mkr{t}()\n  by_ref(z)\n}}\nsettle()\nexpect_dead({t})",
        "{{\n  var y = make_value({t})\n  y.touch()\n  make_value({t}).touch()\n  by_value(make_value({t}))\n  by_cref(make_value({t}))\n}}\nsettle()\nexpect_dead({t})",
        # shared_ptr / unique_ptr
        "{{\n  var s = make_shared_t({t})\n  s.touch()\n  by_shared(s)\n  by_cshared(s)\n  by_ref(s)\n  var s2 = s\n  s2.touch()\n}}\nsettle()\nexpect_dead({t})",
        "{{\n  var s = make_shared_t({t})\n  keep(s)\n}}\nsettle()\nexpect_alive({t})\nrelease_all()\nexpect_dead({t})",
        "{{\n  var u = make_unique_t({t})\n  u.touch()\n  by_ref(u)\n  by_cref(u)\n}}\nsettle()\nexpect_dead({t})",
        # exception unwinding
        "try {{\n  var a = Tracked({t})\n  var v = [Tracked({t})]\n  a.touch()\n  throw({k})\n}} catch (e) {{\n  settle()\n}}\nsettle()\nexpect_dead({t})",
        "def thrower{t}(x) {{ var loc = Tracked({t}); x.touch(); throw(\"boom\") }}\ntry {{\n  thrower{t}(Tracked({t1}))\n}} catch (e) {{ }}\nsettle()\nexpect_dead({t})\nexpect_dead({t1})",
        "try {{\n  var a = Tracked({t})\n  by_ref(undefined_name_{t})\n}} catch (e) {{ }}\nsettle()\nexpect_dead({t})",
        # converted temporaries
        "by_cref({k})\nsettle()\nexpect_dead({kc})\nby_value({k})\nsettle()\nexpect_dead({kc})",
        "{{\n  var d = Derived_Tracked({t})\n  by_ref(d)\n  by_cref(d)\n  by_ptr(d)\n  d.touch()\n}}\nsettle()\nexpect_dead({t})",
        # callbacks held by C++
        "{{\n  var a = Tracked({t})\n  keep_callback(fun[a]() {{ a.touch() }})\n}}\nsettle()\nexpect_alive({t})\nrun_callbacks()\nrelease_callbacks()\nsettle()\nexpect_dead({t})",
        "{{\n  var a = Tracked({t})\n  call_with(fun[a](x) {{ a.touch() + x }}, {k})\n}}\nsettle()\nexpect_dead({t})",
        # loop variables and per-iteration objects captured by closures
        "{{\n  var fs = []\n  for (var i = 0; i < 3; ++i) {{\n    var t = Tracked({t})\n    fs.push_back(fun[t, i]() {{ t.touch() + i }})\n  }}\n  settle()\n  expect_alive({t})\n  for (f : fs) {{ f() }}\n}}\nsettle()\nexpect_dead({t})",
        "{{\n  var acc = 0\n  for (x : [Tracked({t}), Tracked({t})]) {{ acc += x.touch() }}\n  var i = 0\n  while (i < 2) {{ var w = Tracked({t1}); w.touch(); ++i }}\n  settle()\n  expect_dead({t1})\n}}\nsettle()\nexpect_dead({t})",
        # reassignment and set_tag
        "{{\n  var a = Tracked({t})\n  a = Tracked({t1})\n  settle()\n  expect_dead({t})\n  a.touch()\n}}\nsettle()\nexpect_dead({t1})",
        # passing through script functions
        "def pass{t}(x) {{ x.touch(); x }}\ndef hold{t}(x) {{ var y = x; y.touch() }}\n{{\n  var a = Tracked({t})\n  pass{t}(a).touch()\n  hold{t}(a)\n  pass{t}(pass{t}(a))\n  hold{t}(Tracked({t}))\n}}\nsettle()\nexpect_dead({t})",
        # global keeps it alive until the engine dies (only the final audit applies)
        "global gk{t} = Tracked({t})\ngk{t}.touch()\nsettle()\nexpect_alive({t})",
        # ternary / logical temporaries
        "{{\n  var a = Tracked({t})\n  var r = (a.touch() > 0) ? by_value(a) : by_ref(a)\n  (a.touch() > 0) && (by_cref(Tracked({t1})) > 0)\n}}\nsettle()\nexpect_dead({t})\nexpect_dead({t1})",
        # switch / interpolation temporaries
        "{{\n  var a = Tracked({t})\n  var s = \"${{a.touch()}} and ${{make_value({t1}).touch()}}\"\n  switch (a.touch()) {{ case ({t}) {{ by_ref(a) }} default {{ }} }}\n}}\nsettle()\nexpect_dead({t})\nexpect_dead({t1})",
        # the value of a function / lambda / method / if-block is its last statement: a reference into an argument temporary must stay valid
        # until the caller's statement has finished
        "def last{t}() {{ pick_cref(make_value({t})) }}\nvar lf{t} = fun() {{ pick_ref(Tracked({t})) }}\nlast{t}().touch()\nlf{t}().touch()\nby_cref(last{t}())\nlf{t} = fun() {{ 0 }}\nsettle()\nexpect_dead({t})",
        "def ifv{t}(c) {{ if (c) {{ pick_cref(make_value({t})) }} else {{ pick_ptr(make_value({t1})) }} }}\nifv{t}(true).touch()\nby_cptr(ifv{t}(false))\nby_value(ifv{t}(true)) + by_ref(ifv{t}(false))\nsettle()\nexpect_dead({t})\nexpect_dead({t1})",
        "class L{t} {{ def L{t}() {{ }}; def get() {{ pick_ref(make_value({t})) }} }}\nL{t}().get().touch()\nby_cref(L{t}().get())\npick_cref(L{t}().get()).touch()\nsettle()\nexpect_dead({t})",
        # a C++ function goes on using its (converted / temporary) argument after a script callback has made calls of its own in nested scopes
        "def cb{t}() {{ var x = 0; for (var i = 0; i < 3; ++i) {{ x += by_cref(make_value({t})) }}; x }}\nuse_after_callback({k}, cb{t})\nuse_after_callback({k}, fun() {{ {{ by_value(make_value({t})) }}; 1 }})\nuse_after_callback(Tracked({t1}), cb{t})\nuse_after_callback({k}, fun() {{ by_cref({k}) + use_after_callback({k}, cb{t}) }})\nsettle()\nexpect_dead({kc})\nexpect_dead({t})\nexpect_dead({t1})",
        # members of temporaries used within the same statement
        "Holder({t}).inner.touch()\nby_ref(make_holder({t}).inner)\nby_cref(Holder({t}).get_inner)\nmake_holder({t}).get_inner.touch()\nHolder({t}).get_inner().touch()\npick_cref(make_holder({t}).inner).touch()\nsettle()\nexpect_dead({t})",
        "{{\n  var h = Holder({t})\n  h.inner.touch()\n  var &r = h.inner\n  r.touch()\n  by_ptr(h.get_inner)\n  var h2 = h\n  h2.inner.set_tag({t1})\n  h.inner.touch()\n}}\nsettle()\nexpect_dead({t})\nexpect_dead({t1})",
    ]
    tpl = rng.choice(pool)
    return tpl.format(t=t, t1=t + 1, k=k, kc=1000 + k, touch=touch)


# Recorded findings (known_findings.txt): references into temporaries. Each probe runs alone in its own process; the key names the probe, so any
# other use-after-free - also one with the same reader frames - is still reported under its own crash key.
KNOWN_PROBES = [
    ("reference-into-temporary:member-of-returned-object", "var q = make_value(4).tag\nsettle()\nq + 0"),
    ("reference-into-temporary:member-of-constructed-object", "var q = Tracked(5).tag\nsettle()\nq + 0"),
    ("reference-into-destroyed-syntax-tree:element-of-string-literal", "\"abc\"[1]"),
    ("reference-into-temporary:argument-returned-by-reference", "def last() { pick_cref(make_value(6)) }\nvar c = last()\nsettle()\nc.touch()"),
]


def build(rng, idx):
    parts = []
    base = 100
    for i in range(rng.randrange(2, 6)):
        parts.append(T(rng, base + 10 * i))
    return "\n".join(parts) + "\n"


def run(ctx, tier, seed, scale=1.0):
    rng = random.Random(seed)
    quick = tier == "quick"
    exe = vlib.build("asan", ["c11_life"])["c11_life"]
    n = int((3000 if quick else 200000) * scale)
    progs = [build(rng, i) for i in range(n)]
    cases = [["T", s, "read-result"] for s in progs]
    res, hf = vlib.run_cases(exe, cases, "c11", timeout_s=120, batch=16)
    ctx.harness_failures += hf
    vlib.judge_crashes(ctx, exe, cases, res, "c11", timeout_s=120, describe=lambda k: {"program": progs[k]})
    for s, r in zip(progs, res):
        ctx.evaluations += 1
        if r.status != "ok":
            continue
        f = r.fields
        cls, what, out, constructed, destroyed, live = f[0], f[1], f[2], int(f[3]), int(f[4]), int(f[5])
        ctx.count("instances-constructed", constructed)
        ctx.count("instances-destroyed", destroyed)
        wit = {"program": s, "outcome": [cls, what[:200]], "constructed": constructed, "destroyed": destroyed, "alive_after_engine_destruction": live}
        if cls != "ok":
            ctx.violation("program-failed:%s" % cls, wit)
            continue
        ctx.nontriv(s)
        if live != 0:
            ctx.violation("instances-alive-after-engine-destruction", wit)
        if constructed != destroyed + live:
            ctx.violation("registry-inconsistent(double-destruction)", wit)
        for fail in f[6:]:
            w = dict(wit)
            w["failure"] = fail
            ctx.violation(fail.split(" ")[0], w)
        if len(ctx.samples) < 3 and rng.random() < 0.002:
            ctx.sample({"program": s[:1500], "constructed": constructed})
    pc = [["T", prog, "read-result"] for _, prog in KNOWN_PROBES]
    pres, _ = vlib.run_cases(exe, pc, "c11k", timeout_s=60, batch=1)
    for (key, prog), r in zip(KNOWN_PROBES, pres):
        ctx.evaluations += 1
        if r.status == "crash":
            ctx.violation(key, {"program": prog, "crash": vlib.crash_key(r.stderr, r.fields[0] if r.fields else "?"), "stderr": r.stderr[:1500]})
            ctx.count("known-probe-crashed")
        else:
            ctx.count("known-probe-no-longer-fails")
    # returned values are read by the host in a share of the ordinary programs as well (see 'read-result' below)
    ctx.min_events["instances-destroyed"] = 5000
    if not ctx.samples:
        ctx.sample({"program": progs[0][:1500]})
    ctx.rule = ("one case = 2-5 route templates (34 shapes, seeded parameters) over the instrumented class; every template ends with all referrers to its tags "
                "gone by construction and probes expect_dead / expect_alive; evaluated on the thread that owns the engine; the engine is destroyed inside "
                "the case and the registry audited afterwards; all cases non-trivial; distinct by source")
    ctx.assumptions += ["reference cycles are not generated (the property excepts them)",
                        "ASan may miss a use of freed memory that was re-allocated (quarantine 64 MiB)"]
