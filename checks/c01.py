"""C01 - Parsing is total and safe.
Workload: shipped corpus, seeded mutants, escape-sequence grid, pathological nesting / chain probes.
Monitors: outcome classifier (only eval_error may leave parse), hook H3 (no unconsumed input at normal return),
independent trivia scanner (Noop root only for trivia-only input), ASan/UBSan/libstdc++ assertions with the
input's terminator poisoned, signals/terminate via the fork runner, native-stack probes in the plain flavour at
the default 8 MiB stack."""
import itertools
import random

import corpus
import vlib

LEVEL = "exploration"

SPECIAL = [b"(", b")", b"[", b"]", b"{", b"}", b'"', b"'", b"\\", b"`", b"$", b"${", b"}", b"\x00", b"\r", b"\n", b"\r\n",
           b"\x7f", b"\x80", b"\xff", b"\xef\xbb\xbf", b";", b":", b",", b".", b"..", b"::", b"#", b"//", b"/*", b"*/",
           b"\\x", b"\\u", b"\\U", b"\\0", b"\\7", b"\\777", b"\\$", b"0x", b"0b", b"1e", b"1.", b".5", b"e+", b"ull", b"f",
           b"->", b":=", b"++", b"--", b"&&", b"||", b"<<=", b">>=", b"!", b"~", b"?", b"@", b"\t", b" "]
KEYWORDS = [b"def", b"fun", b"var", b"auto", b"global", b"class", b"attr", b"if", b"else", b"while", b"for", b"switch", b"case",
            b"default", b"try", b"catch", b"finally", b"return", b"break", b"continue", b"true", b"false", b"__LINE__",
            b"__FILE__", b"__FUNC__", b"__CLASS__", b"Infinity", b"NaN", b"_", b"this"]


def trivia_only(b):
    """Independent (deliberately liberal) scan: whitespace, line ends, ';' and comments only."""
    i, n = 0, len(b)
    while i < n:
        c = b[i]
        if c in b" \t\r\n;":
            i += 1
        elif b[i:i + 2] == b"//" or c == 0x23:
            j = b.find(b"\n", i)
            i = n if j < 0 else j
        elif b[i:i + 2] == b"/*":
            j = b.find(b"*/", i + 2)
            i = n if j < 0 else j + 2
        else:
            return False
    return True


def mutate(rng, src, pool):
    b = bytearray(src)
    for _ in range(rng.choice((1, 1, 1, 2, 2, 3, 5))):
        op = rng.randrange(11)
        pos = rng.randrange(len(b) + 1)
        if op == 0 and b:
            b[rng.randrange(len(b))] = rng.randrange(256)
        elif op == 1:
            b[pos:pos] = rng.choice(SPECIAL)
        elif op == 2 and b:
            del b[rng.randrange(len(b))]
        elif op == 3 and b:
            e = min(len(b), pos + rng.randrange(1, 40))
            del b[pos:e]
        elif op == 4:
            del b[pos:]
        elif op == 5 and b:
            e = min(len(b), pos + rng.randrange(1, 60))
            b[pos:pos] = b[pos:e]
        elif op == 6:
            b[pos:pos] = rng.choice(KEYWORDS) + rng.choice((b"", b" ", b"("))
        elif op == 7 and b:
            # transpose / replace a bracket
            idx = [i for i, c in enumerate(b) if c in b"()[]{}\"'"]
            if idx:
                i = rng.choice(idx)
                b[i] = rng.choice(b"()[]{}\"'")
        elif op == 8:
            other = rng.choice(pool)
            q = rng.randrange(len(other) + 1)
            b[pos:] = other[q:q + rng.randrange(1, 200)]
        elif op == 9:
            b[pos:pos] = bytes(rng.randrange(256) for _ in range(rng.randrange(1, 6)))
        elif op == 10 and b:
            # cut at a token-ish boundary
            cands = [i for i, c in enumerate(b) if c in b" \n();,{}"]
            if cands:
                del b[rng.choice(cands) + rng.randrange(2):]
    return bytes(b)


def escape_grid():
    vals = [0x0, 0x1, 0x7f, 0x80, 0xff, 0x100, 0x7ff, 0x800, 0xd7ff, 0xd800, 0xdfff, 0xe000, 0xffff, 0x10000, 0x10ffff, 0x110000,
            0x1fffff, 0x200000, 0x7fffffff, 0x80000000, 0xffffffff]
    escs = [b"\\" + bytes([c]) for c in b"abfnrtv'\"\\?$0e cq{["] + [b"\\"]
    for nd in range(1, 5):
        for d in (b"0", b"7", b"3", b"8", b"9"):
            escs.append(b"\\" + d * nd)
    escs += [b"\\377", b"\\400", b"\\777", b"\\1234"]
    for nd in range(0, 4):
        for d in (b"0", b"f", b"F", b"g", b"7"):
            escs.append(b"\\x" + d * nd)
    for nd in range(0, 6):
        escs.append(b"\\u" + b"1" * nd)
        escs.append(b"\\u" + b"f" * nd)
        escs.append(b"\\u" + b"1" * max(0, nd - 1) + b"g")
    for nd in range(0, 10):
        escs.append(b"\\U" + b"0" * nd)
        escs.append(b"\\U" + b"f" * nd)
        escs.append(b"\\U" + b"1" * max(0, nd - 1) + b"z")
    for v in vals:
        if v <= 0xffff:
            escs.append(b"\\u%04x" % v)
            escs.append(b"\\u%04X" % v)
        escs.append(b"\\U%08x" % v)
        if v <= 0x1ff:
            escs.append(b"\\%o" % v)
        if v <= 0xff:
            escs.append(b"\\x%02x" % v)
            escs.append(b"\\x%x" % v)
    escs = sorted(set(escs))
    tails = [b"", b"$", b"{", b"\\", b"a", b"${1}", b"1", b"\\n", b" "]
    out = []
    for e in escs:
        for t in tails:
            out.append(b'"' + e + t + b'"')
            out.append(b'"' + e + t)              # unterminated
            out.append(b'"${"' + e + t + b'"}"')   # inside interpolation
            out.append(b'"a${1}' + e + t + b'"')
        out.append(b"'" + e + b"'")
        out.append(b"'" + e)
        out.append(b"'" + e + b"a'")
    return out


OPENERS = [  # (prefix, middle, suffix)
    (b"(", b"1", b")"), (b"[", b"1", b"]"), (b"{", b"1", b"}"), (b"fun(){", b"1", b"}"), (b"if(true){", b"1", b"}"),
    (b"while(true){", b"1", b"}"), (b"[1:", b"1", b"]"), (b"-", b"x", b""), (b"!", b"x", b""), (b"++", b"x", b""), (b"~", b"x", b""),
    (b"\"${", b"1", b"}\""), (b"f(", b"1", b")"), (b"a[", b"1", b"]"), (b"for(;;){", b"1", b"}"), (b"try{", b"1", b"}catch(e){}"),
    (b"def f(){", b"1", b"}"), (b"switch(1){case(1){", b"1", b"}}"), (b"(", b"", b""), (b"[", b"", b""), (b"{", b"", b""),
    (b"", b"", b")"), (b"", b"", b"]"), (b"", b"", b"}"), (b"\"${", b"", b""), (b"class A{def A(){", b"1", b"}}"), (b"1?", b"1", b":1"),
    (b"/*", b"x", b"*/"), (b"x=", b"1", b""), (b"x:", b"1", b""),
]
CHAINS = [  # (head, unit, tail)
    (b"a", b"+a", b""), (b"a", b".b", b""), (b"a", b"()", b""), (b"a", b"[0]", b""), (b"\"", b"${a}", b"\""), (b"a", b"*a-a", b""),
    (b"a", b"&&a", b""), (b"a", b"||a", b""), (b"a", b"==a", b""), (b"a", b"=a", b""), (b"a", b".b()", b""), (b"[", b"a,", b"a]"),
    (b"f(", b"a,", b"a)"), (b"", b"a;", b""), (b"", b"a\n", b""), (b"", b"{}", b""), (b"", b";", b""), (b"1", b"+1", b""), (b"a", b"<<a", b""),
    (b"", b"if(a){}else ", b"{}"), (b"def f(", b"a,", b"a){}"), (b"\"", b"\\x41", b"\""), (b"", b"//x\n", b""), (b"a", b" ", b""),
    (b"[", b"a:a,", b"a:a]"),
]


# witnesses of repaired defects (known_findings.txt 'fixed:' entries) - replayed on every run, suppressing nothing
REGRESSION = [b")", b"\r", b"]", b"}", b"\x00", b'"${)}"', b'"${\x00}"', b'"\\UFFFFFFFF"', b'"\\U80000000"', b"'\\U80000000'", b'"\\u("',
              b'"\\u12"', b"'\\u12'", b'"\\U0000004"', b"if(x){1}else{2}else{3}", b"if(x){1}else if(y){2}else{3}else{4}",
              b"if(a){}\nelse{}\n\nelse{}", b"if(var i=1;i==1){}else{}else{}"]


def run(ctx, tier, seed, scale=1.0):
    rng = random.Random(seed)
    quick = tier == "quick"
    exes = vlib.build("asan", ["c01_parse"])
    exe = exes["c01_parse"]
    exe_plain = vlib.build("plain", ["c01_parse"])["c01_parse"]
    corp = corpus.load()
    pool = [c for _, c in corp if c]
    nmut = int((20000 if quick else 600000) * scale)
    inputs = []       # (family, bytes)
    for name, c in corp:
        inputs.append(("corpus", c))
    for w in REGRESSION:
        inputs.append(("regression", w))
    # monitor self-test: the poisoned terminator must be reported
    for _ in range(nmut):
        inputs.append(("mutant", mutate(rng, rng.choice(pool), pool)))
    grid = escape_grid()
    for g in grid:
        inputs.append(("escape", g))
    # small exhaustive family: all strings of length <= 3 over a hostile alphabet
    alpha = [b"(", b")", b"{", b"}", b"[", b"]", b'"', b"'", b"\\", b"$", b"\r", b"\n", b"a", b"1", b".", b";", b"\x00", b"\x80", b"#", b"/",
             b"*", b" ", b":", b"=", b"-", b"`", b","]
    small = [b""]
    for L in (1, 2, 3) if not quick else (1, 2):
        for t in itertools.product(alpha, repeat=L):
            small.append(b"".join(t))
    if quick:
        small += [b"".join(rng.choice(alpha) for _ in range(3)) for _ in range(3000)]
    for s in small:
        inputs.append(("small", s))

    cases = [["P", b] for _, b in inputs]
    ctx.rule = ("inputs = shipped corpus (unittests, samples, 2.9k minimized fuzzer files) + seeded byte/bracket/keyword/truncation/"
                "splice mutants + escape-sequence grid in string/char/interpolation context + all strings of length<=2(3) over a "
                "27-symbol hostile alphabet + nesting/chain probes (depth 1..1e5/1e6) ; an input is non-trivial if it is not "
                "whitespace/comment-only; distinct by content hash")
    res, hf = vlib.run_cases(exe, cases, "c01", timeout_s=120, batch=64)
    ctx.harness_failures += hf
    judge(ctx, inputs, res)
    vlib.judge_crashes(ctx, exe, cases, res, "c01", timeout_s=120)

    # self-test of the over-read monitor (must fire, otherwise the run observed nothing about over-reads)
    st, _ = vlib.run_cases(exe, [["SELFTEST_OVERREAD", "abc"], ["SELFTEST_OVERREAD", "x" * 100]], "c01st", shards=1, batch=1)
    if all(r.status == "crash" and "use-after-poison" in r.stderr or "buffer-overflow" in r.stderr for r in st):
        ctx.count("overread_monitor_selftest_fired", 2)
    ctx.min_events["overread_monitor_selftest_fired"] = 2

    # structure probes: the plain flavour runs the deepest ones at the default 8 MiB stack (that is the real exposure);
    # the ASan flavour repeats moderate depths with all monitors on. Constant chains fold at parse time in quadratic time,
    # so they are capped lower: slowness is not a violation and must not trip the watchdog.
    def probes(maxdepth, fold_cap):
        depths = [d for d in (1, 8, 64, 255, 256, 257, 511, 512, 513, 1024, 4096, 20000, 100000, 300000, 1000000) if d <= maxdepth]
        pc, pd = [], []
        for (pre, mid, suf) in OPENERS:
            for n in depths:
                pc.append(["G", pre, str(n), mid, suf])
                pd.append(("nest", pre, n, mid, suf))
        for (head, unit, tail) in CHAINS:
            for n in depths:
                if unit == b"+1" and n > fold_cap:
                    continue
                pc.append(["C", head, str(n), unit, tail])
                pd.append(("chain", head, n, unit, tail))
        return pc, pd
    plan = (("plain", exe_plain, 8 << 20, 300000 if quick else 1000000, 20000 if quick else 100000),
            ("asan", exe, 256 << 20, 4096 if quick else 100000, 4096 if quick else 20000))
    for flavour, x, stack, maxdepth, fold_cap in plan:
        pcases, pdesc = probes(maxdepth, fold_cap)
        pres, hf = vlib.run_cases(x, pcases, "c01p" + flavour, timeout_s=600, batch=1, stack_bytes=stack)
        ctx.harness_failures += hf
        pin = [("probe-" + flavour, _probe_bytes(d)) for d in pdesc]
        judge(ctx, pin, pres, probe=True)
        vlib.judge_crashes(ctx, x, pcases, pres, "c01p" + flavour,
                           describe=lambda k, fl=flavour, pdesc=pdesc: {"flavour": fl, "probe": [vlib._short(str(z), 80) for z in pdesc[k]]},
                           timeout_s=600, stack_bytes=stack)
    if not quick:
        # coverage-guided tier: libFuzzer target with the same in-process oracle; artifacts are re-run through the ordinary harness
        fexe = vlib.build("fuzz", ["fuzz_parse"])["fuzz_parse"]
        seeds = [b for _, b in inputs if len(b) < 4096][:6000]
        dictionary = [k for k in KEYWORDS] + [x for x in SPECIAL if x]
        stats, arts = vlib.run_libfuzzer(fexe, "c01fuzz", seeds, runs=int(250000 * scale) + 1000, dictionary=dictionary)
        ctx.counters["libfuzzer"] = stats
        ctx.evaluations += stats["executions"]
        if arts:
            acases = [["P", b] for _, b in arts]
            ares, hf2 = vlib.run_cases(exe, acases, "c01art", timeout_s=120, batch=1)
            ctx.harness_failures += hf2
            judge(ctx, [("fuzz-artifact", b) for _, b in arts], ares)
            n = vlib.judge_crashes(ctx, exe, acases, ares, "c01art", timeout_s=120)
            for (fn, b), r in zip(arts, ares):
                if r.status == "ok" and r.fields[0] in ("ok", "eval_error") and (r.fields[0] != "ok" or r.fields[3] == "0"):
                    ctx.inconc("fuzzer-artifact-does-not-reproduce:" + fn.split("-")[0], vlib.esc(b)[:300])
        ctx.min_events["fuzz-executions"] = 1000
        ctx.counters["fuzz-executions"] = stats["executions"]
    ctx.assumptions += [
        "only inputs the generators produce are judged; a clean ASan run is not a proof of memory safety",
        "ASan flavour runs with a 256 MiB stack so that instrumentation overhead cannot fake an overflow; the plain flavour probes the "
        "default 8 MiB stack",
        "watchdog expiry (120 s / 300 s per input) is inconclusive unless it repeats on an isolated re-run",
    ]


def _probe_bytes(d):
    kind, a, n, b, c = d
    if n > 600:
        return ("%s:%r*%d+%r+%r" % (kind, a, n, b, c)).encode()
    return a * n + b + c * n if kind == "nest" else a + b * n + c


def judge(ctx, inputs, res, probe=False):
    for (fam, b), r in zip(inputs, res):
        ctx.evaluations += 1
        ctx.count("family:" + fam)
        if r.status != "ok":
            continue
        cls, what, extra, rem, root, nch, rets = r.fields[:7]
        ctx.count("outcome:" + cls)
        if probe:
            ctx.count("probe-outcome:" + (what if cls == "eval_error" and "depth" in what else cls))
        triv = (not probe) and trivia_only(b)
        if not triv:
            ctx.nontriv(fam.encode() + b"|" + b)
        if cls == "eval_error":
            pass
        elif cls == "ok":
            if int(rem) > 0:
                ctx.violation("dropped-input:cursor-not-at-end", {"input": vlib.esc(b)[:2000], "remaining": int(rem), "root": root})
            elif root == "Noop" and not probe and not triv:
                ctx.violation("dropped-input:noop-root-for-nontrivia", {"input": vlib.esc(b)[:2000], "root": root})
            else:
                ctx.count("accepted-fully-consumed")
            if len(ctx.samples) < 4 and fam in ("mutant", "escape") and not triv:
                ctx.sample({"family": fam, "input": vlib.esc(b)[:300], "outcome": cls, "root": root})
        else:
            ctx.violation("wrong-exception:%s:%s" % (cls, extra.split("<")[0][:60]),
                          {"input": vlib.esc(b)[:2000], "class": cls, "what": what[:300], "type": extra})
        if cls == "eval_error" and len(ctx.samples) < 6 and fam == "mutant":
            ctx.sample({"family": fam, "input": vlib.esc(b)[:300], "outcome": cls, "reason": what[:80]})
