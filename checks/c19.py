"""C19 - evaluating a file means evaluating its bytes; use() evaluates once.
F cases: a file with generated content (every length 0..12 and random lengths of shipped scripts and snippets, +-BOM, CRLF, shebang,
trailing NULs, BOM-only, 1-2 bytes of a BOM) is evaluated with eval_file on one fresh engine and as a string (minus one leading BOM)
on another; result, output, error class/reason/position and the number of bytes the parser was handed (hook H3b) must agree.
U cases: histories of use()/eval_file() over 3 files x 3 search paths with logging files (incl. nested and failing includes) checked
against a dictionary model of the used set."""
import os
import random
import shutil

import corpus
import vlib

LEVEL = "exploration"
US = "\x1f"
BOM = b"\xef\xbb\xbf"

SNIPPETS = [b"1", b"1+2", b"var x = 3; x * 2", b"print(\"hi\")", b"\"abc\"", b"def f(x) { x + 1 }; f(2)", b"[1,2,3].size()", b"true", b"x", b"1 +",
            b"// only a comment", b"# comment\n5", b"\n\n7\n", b"var s = \"a\\nb\"; s.size()", b"print(1); print(2); 3", b"'c'", b"1.5", b"()",
            b"if (true) { 1 } else { 2 }", b"for (var i = 0; i < 3; ++i) { print(i) }", b"throw(5)", b"nosuchfunction(1)", b"\"${1+1}\"",
            b"class A { def A() {} }; A().is_type(\"A\")", b";", b";;1;;", b"\t 2 \t", b"/* c */ 3", b"__LINE__", b"\n\n__LINE__", b"__FILE__ == __FILE__",
            b"var v = [1,2]; v.push_back(3); v", b"\"\\u00e9\"", b"\"\xc3\xa9\"", b"1 \xc3\xa9", b"@"]


class ModelErr(Exception):
    def __init__(self, cls):
        self.cls = cls


class World:
    def __init__(self, paths, files):
        self.paths = paths          # list of dir paths ending in '/'
        self.files = files          # abs path -> spec dict(id, nested, fail)
        self.used = set()
        self.log = []

    def eval_content(self, ap):
        spec = self.files[ap]
        self.log.append(spec["id"] + ":start")
        if spec["nested"]:
            self.use(spec["nested"])
        if spec["fail"]:
            raise ModelErr("eval_error")
        self.log.append(spec["id"] + ":end")

    def use(self, name):
        for p in self.paths:
            ap = p + name
            if ap in self.used:
                return
            if ap in self.files:
                # named = used: a use() of the same file from inside it (directly or through another file) is a no-op;
                # a file that fails has not been used
                self.used.add(ap)
                try:
                    self.eval_content(ap)
                except ModelErr:
                    self.used.discard(ap)
                    raise
                return
        raise ModelErr("file_not_found")

    def eval_file_abs(self, ap):
        if ap not in self.files:
            raise ModelErr("file_not_found")
        self.eval_content(ap)

    def script_eval_file(self, name):
        for p in self.paths:
            ap = p + name
            if ap in self.files:
                try:
                    self.eval_content(ap)
                except ModelErr as e:
                    if e.cls == "eval_error":
                        raise ModelErr("boxed-eval_error")
                    raise
                return
        raise ModelErr("file_not_found")


def content_of(spec):
    lines = ['bump("%s:start")' % spec["id"]]
    if spec["nested"]:
        lines.append('use("%s")' % spec["nested"])
    if spec["fail"]:
        lines.append("this_function_does_not_exist_(1)")
    lines.append('bump("%s:end")' % spec["id"])
    return ("\n".join(lines) + "\n").encode()


def run(ctx, tier, seed, scale=1.0):
    rng = random.Random(seed)
    quick = tier == "quick"
    exe = vlib.build("asan", ["c19_files"])["c19_files"]
    base = os.path.join(vlib.BUILD, "scratch", "c19files-%d" % os.getpid())
    shutil.rmtree(base, ignore_errors=True)
    os.makedirs(base)
    try:
        _run(ctx, rng, quick, scale, exe, base)
    finally:
        shutil.rmtree(base, ignore_errors=True)


def _run(ctx, rng, quick, scale, exe, base):
    corp = [c for n, c in corpus.load(with_fuzzy=False)
            if len(c) < 3000 and not any(w in n for w in ("performance", "async", "future", "thread", "load_module", "eval_file", "use.", "deep_include",
                                                           "multifile", "execution_context"))]
    sources = SNIPPETS + corp
    contents = []
    # every prefix length 0..12 of every snippet, and random cut points of everything
    for s in SNIPPETS:
        for L in range(0, min(13, len(s) + 1)):
            contents.append(s[:L])
    nrand = int((800 if quick else 60000) * scale)
    for _ in range(nrand):
        s = rng.choice(sources)
        r = rng.random()
        if r < 0.4:
            contents.append(s[:rng.randrange(len(s) + 1)])
        elif r < 0.7:
            contents.append(s)
        elif r < 0.8:
            contents.append(s.replace(b"\n", b"\r\n"))
        elif r < 0.9:
            contents.append(b"#!/usr/bin/chai" + rng.choice([b"\n", b"\r\n", b" -x\n", b"", b";"]) + s)
        else:
            contents.append(s + b"\x00" * rng.randrange(1, 4))
    decorated = []
    for c in contents:
        decorated.append(c)
        if rng.random() < 0.5:
            decorated.append(BOM + c)
        if rng.random() < 0.05:
            decorated.append(BOM + BOM + c)
    decorated += [b"", BOM, BOM[:1], BOM[:2], BOM + b"1", BOM[:2] + b"1", BOM[:1] + b"1", b"1", b"12", b"\n", b" ", b"\x00", b"\x00\x00", BOM + b"\n",
                  b"x", b"xy", b"1;", b"\xef", b"\xef\xbb", b"\xef\xbb\xbf\xef\xbb\xbf", b"#!", b"#!\n", b"#!x", b"#!x\n1", b"#!x;2", BOM + b"#!x\n3"]
    fdir = os.path.join(base, "F")
    os.makedirs(fdir)
    cases, meta = [], []
    for i, c in enumerate(decorated):
        p = os.path.join(fdir, "f%d.chai" % i)
        with open(p, "wb") as fh:
            fh.write(c)
        cases.append(["F", p, c])
        meta.append(("F", c))
    for i in range(20):
        cases.append(["M", os.path.join(fdir, "missing%d.chai" % i)])
        meta.append(("M", None))
    # use histories
    nh = int((600 if quick else 30000) * scale)
    worlds = []
    for h in range(nh):
        d = os.path.join(base, "U", str(h))
        paths = []
        for pi in range(3):
            pd = os.path.join(d, "p%d" % pi)
            os.makedirs(pd)
            paths.append(pd + "/")
        rng.shuffle(paths)
        npaths = rng.choice([1, 2, 3, 3])
        use_paths = paths[:npaths]
        files = {}
        names = ["f0.chai", "f1.chai", "f2.chai"]
        for fi, name in enumerate(names):
            for p in paths:     # files may also exist in directories that are not on the use path
                if rng.random() < 0.45:
                    nested = rng.choice(names[fi + 1:] + ["missing.chai"]) if (fi < 2 and rng.random() < 0.4) else None
                    if rng.random() < 0.15:
                        nested = rng.choice(names)        # any file, itself and earlier ones included: include cycles
                    if nested == "missing.chai" and rng.random() < 0.5:
                        nested = None
                    spec = {"id": "%s@%s" % (name, os.path.basename(p[:-1])), "nested": nested, "fail": rng.random() < 0.12}
                    files[p + name] = spec
                    with open(p + name, "wb") as fh:
                        fh.write(content_of(spec))
        w = World(use_paths, files)
        ops, exp = [], []
        for _ in range(rng.randrange(3, 12)):
            k = rng.random()
            name = rng.choice(names + ["missing.chai"])
            if k < 0.45:
                op = ("use", name)
            elif k < 0.7:
                op = ("script-use", name)
            elif k < 0.85:
                op = ("eval_file", rng.choice(paths) + name)
            else:
                op = ("script-eval_file", name)
            w.log = []
            try:
                if op[0] in ("use", "script-use"):
                    w.use(op[1])
                elif op[0] == "eval_file":
                    w.eval_file_abs(op[1])
                else:
                    w.script_eval_file(op[1])
                cls = "ok"
            except ModelErr as e:
                cls = e.cls
            ops.append("%s:%s" % op)
            exp.append((cls, list(w.log)))
        cases.append(["U", str(len(use_paths))] + use_paths + ops)
        meta.append(("U", (ops, exp)))
    res, hf = vlib.run_cases(exe, cases, "c19", timeout_s=120, batch=16)
    ctx.harness_failures += hf
    vlib.judge_crashes(ctx, exe, cases, res, "c19", timeout_s=120,
                       describe=lambda k: {"case": [vlib._short(x, 300) for x in cases[k]]})
    for (kind, m), c, r in zip(meta, cases, res):
        ctx.evaluations += 1
        ctx.count("kind:" + kind)
        if r.status != "ok":
            continue
        f = r.fields
        if kind == "F":
            content = m
            stripped = content[3:] if content.startswith(BOM) else content
            a, b = f[:6], f[6:12]
            ctx.nontriv(b"F" + content)
            ctx.count("file-length:%s" % (len(content) if len(content) < 4 else "4+"))
            names = ["class", "result", "reason", "position", "stdout", "parser-input-bytes"]
            diff = [n for n, x, y in zip(names, a, b) if x != y]
            wit = {"file_bytes": vlib.esc(content)[:600], "eval_file": dict(zip(names, a)), "eval_string": dict(zip(names, b))}
            if diff:
                ctx.violation("file-vs-string:%s" % diff[0], wit)
            elif b[5] != str(len(stripped)):
                ctx.violation("parser-was-not-handed-the-file-bytes", wit)
            else:
                ctx.count("parser-input-size-confirmed")
            if len(ctx.samples) < 3 and rng.random() < 0.004:
                ctx.sample({"kind": "F", "file_bytes": vlib.esc(content)[:200], "outcome": a[0], "result": a[1][:60]})
        elif kind == "M":
            ctx.nontriv("M" + c[1])
            if f[0] != "file_not_found":
                ctx.violation("missing-file:c++:%s" % f[0], {"path": c[1], "got": f[0] + " " + f[1][:200]})
            if f[2] not in ("file_not_found",):
                ctx.violation("missing-file:script:%s" % f[2], {"path": c[1], "got": f[2] + " " + f[3][:200]})
        else:
            ops, exp = m
            ctx.nontriv("U" + repr(c[1:]))
            for i, (op, (ecls, elog), rec) in enumerate(zip(ops, exp, f)):
                cls, what, log = rec.split(US)
                got_log = log.split(",") if log else []
                ctx.count("use-op:" + op.split(":")[0])
                if cls == "boxed" and "eval_error" in what:
                    cls = "boxed-eval_error"
                wit = {"use_paths": c[2:2 + int(c[1])], "files": _files_for(c, meta, m), "ops_so_far": ops[:i + 1], "expected": [ecls, elog],
                       "got": [cls, got_log, what[:200]]}
                if cls != ecls:
                    ctx.violation("use-history:outcome:%s:expected-%s-got-%s" % (op.split(":")[0], ecls, cls), wit)
                    break
                if got_log != elog:
                    kind2 = "evaluated-twice" if len(got_log) > len(elog) else ("not-evaluated" if len(got_log) < len(elog) else "wrong-file")
                    ctx.violation("use-history:%s:%s" % (op.split(":")[0], kind2), wit)
                    break
            if len(ctx.samples) < 6 and rng.random() < 0.01:
                ctx.sample({"kind": "U", "ops": ops, "expected": exp})
    ctx.rule = ("F = one file content (prefixes of length 0..12 of 36 snippets, random cuts of shipped scripts, +-BOM, CRLF, shebang, trailing NULs, "
                "partial BOMs) evaluated via eval_file and via eval on two fresh engines; M = missing file; U = history of 3..11 use()/eval_file() "
                "calls (C++ and script level) over 3 logging files in up to 3 search directories with nested, failing and cyclic includes (a file using itself or an earlier one), checked against a "
                "model of the used set; all cases are non-trivial; distinct by content")
    ctx.assumptions += ["a use() of a file from inside its own evaluation is a no-op (the file has been named)",
                        "a file whose evaluation fails is not recorded as used (as implemented; the property does not say)"]


def _files_for(c, meta, m):
    return "see use_paths directories (contents: bump(id:start); [use(nested)]; [failing call]; bump(id:end))"
