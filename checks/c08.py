"""C08 - evaluating code does not change the code.
History oracle: a fresh engine defines generated functions once (through parse + eval(AST)); then every call expression is evaluated
3-6 times in a seeded interleaving, alternately from source text and by re-evaluating its stored parse tree; execution i of a call
must equal execution 1 (result, type, output, error) and the parse trees must print identically before and after."""
import random

import gen
import printer
import vlib

LEVEL = "exploration"
US = "\x1f"

PROFILE = {"w_switch": 3, "w_try": 2, "objects": False, "top_min": 1, "top_max": 2, "mut_params": 0.0, "unguarded_div": 0.0, "w_def": 0, "w_lambda": 0}


def lit_int(rng):
    return str(rng.choice([0, 1, 2, 7, 42, 100, 255, 1000, rng.randrange(0, 999)]))


def lit_str(rng):
    return '"%s"' % rng.choice(["", "a", "ab", "x y", "lit", "0", "hello world"])


def lit_vec(rng, depth=1):
    items = []
    for _ in range(rng.randrange(0, 5)):
        k = rng.random()
        if k < 0.5:
            items.append(lit_int(rng))
        elif k < 0.7:
            items.append(lit_str(rng))
        elif k < 0.85 and depth > 0:
            items.append(lit_vec(rng, depth - 1))
        else:
            items.append(rng.choice(["true", "false", "1.5", "'c'"]))
    return "[" + ", ".join(items) + "]" if items else "[]"


def template_function(rng, name):
    """a function whose body builds values from literals, mutates them and returns them by some route"""
    lines = []
    rets = []
    if rng.random() < 0.8:
        lines.append("var a = %s" % lit_int(rng))
        for _ in range(rng.randrange(0, 4)):
            lines.append(rng.choice(["a += p", "++a", "a = a * 2 % 1000", "a -= %s" % lit_int(rng), "--a", "a |= 3", "a = -a"]))
        rets.append("a")
    if rng.random() < 0.7:
        lines.append("var s = %s" % lit_str(rng))
        for _ in range(rng.randrange(0, 4)):
            lines.append(rng.choice(['s += "x"', "s += to_string(p)", 's = s + "tail"', "s += 'c'", 's.push_back(\'d\')', "if (!s.empty()) { s[0] = 'Z' }", "s += s"]))
        rets += ["s", "s.size()"]
    if rng.random() < 0.8:
        lines.append("var v = %s" % lit_vec(rng))
        for _ in range(rng.randrange(0, 5)):
            lines.append(rng.choice(["v.push_back(p)", "v.push_back(%s)" % lit_int(rng), "if (v.size() > 0 && v[0].is_type(\"int\")) { v[0] = %s }" % lit_int(rng), "v.push_back(%s)" % lit_vec(rng, 0),
                                     "if (v.size() > 1) { v.erase_at(1) }", "v.insert_at(0, %s)" % lit_str(rng), "if (v.size() > 0) { v.pop_back() }",
                                     "v.push_back(v.size())", "v = v", "if (rem(p) == 1) { v.clear() }".replace("rem(p)", "p % 2")]))
        rets += ["v", "v.size()", "[v, v.size()]"]
    if rng.random() < 0.5:
        lines.append('var m = ["k": %s, "w": %s]' % (lit_int(rng), lit_vec(rng, 0)))
        for _ in range(rng.randrange(0, 4)):
            lines.append(rng.choice(['m["k"] += p', 'm["n"] = %s' % lit_str(rng), 'm["w"].push_back(p)', 'm.erase("k"); m["k"] = %s' % lit_int(rng), 'm["z"] = [p]']))
        rets += ['m', 'm.size()', 'm["w"]']
    if rng.random() < 0.4:
        lines.append("var r = [%d..%d]" % (rng.randrange(0, 3), rng.randrange(2, 6)))
        lines.append(rng.choice(["r.push_back(p)", "r[0] = 50", "r.pop_back()"]))
        rets += ["r"]
    if rng.random() < 0.4:
        lines.append('var i = "x${p}y${%s}"' % lit_int(rng))
        lines.append(rng.choice(['i += "z"', "i += to_string(p)", 'i = i + i']))
        rets += ["i"]
    if rng.random() < 0.3:
        lines.append("var b = %s" % rng.choice(["true", "false", "!true", "true && false", "true || false", "!false"]))
        lines.append(rng.choice(["b = !b", "b = b && (p > 1)", "b = b || false"]))
        rets += ["b"]
    if rng.random() < 0.3:
        lines.append("var d = %s" % rng.choice(["1.5", "0.25", "2.0 * 3", "-1.5", "1e2"]))
        lines.append(rng.choice(["d += p", "d *= 2", "d = d / 4"]))
        rets += ["d"]
    if not rets:
        lines.append("var a = 1")
        rets = ["a"]
    if rng.random() < 0.3:
        lines.append("print(%s)" % rng.choice(rets))
    route = rng.random()
    r1 = rng.choice(rets)
    if route < 0.3:
        lines.append("return %s" % r1)
    elif route < 0.55:
        lines.append(r1)
    elif route < 0.7:
        lines.append("var l = fun[%s]() { %s }" % (r1.split(".")[0].split("[")[0] if r1[0] != "[" else "v", r1))
        lines.append("return l()")
    elif route < 0.85:
        lines.append("return [%s, %s]" % (r1, rng.choice(rets)))
    else:
        lines.append('return ["res": %s]' % r1)
    return "def %s(p) {\n  %s\n}\n" % (name, "\n  ".join(lines))


FOLDABLE_ARGS = ["\"draft\"", "1", "[3, 4]", "(true || false)", "!false", "!true", "(true && true)", "-5", "(2 + 3)", "(2 * 3 + 1)", "+7", "~1", "(1 < 2)", "(10 / 3)", "1.5 * 2",
                 "double(2)", "int(3)", "(7 % 4)", "(1 << 3)", "\"a\" + \"b\"", "[1, 2]", "'c'", "(true ? 1 : 2)", "3", "true", "\"lit\"", "2.5"]


def numeric_literal_function(rng, name):
    """all-numeric inline containers mutated element-wise, through a ranged-for variable and through aliases"""
    lit = "[" + ", ".join(str(rng.randrange(0, 50)) for _ in range(rng.randrange(1, 5))) + "]"
    body = rng.choice([
        "var v = %s\n  v[0] = v[0] + p\n  v[0] += 1\n  v" % lit,
        "var v = %s\n  for (e : v) { e += p }\n  v" % lit,
        "var s = 0\n  for (e : %s) { e *= 2; s += e }\n  s" % lit,
        "var v = %s\n  var &r = v[0]\n  r = r + 10\n  v" % lit,
        "var m = [\"a\": %d, \"b\": %d]\n  m[\"a\"] += p\n  m[\"a\"] + m[\"b\"]" % (rng.randrange(9), rng.randrange(9)),
        "var v = [%s, %s]\n  v[0][0] += p\n  v[1].push_back(p)\n  v" % (lit, lit),
        "var r = [1..%d]\n  r[0] += p\n  r" % rng.randrange(2, 5),
        "auto v = %s\n  ++v[0]\n  --v[0]\n  ++v[0]\n  v[0]" % lit,
        "%s[0] + p" % lit,
        "var x = %d\n  x += p\n  var y = 2.5\n  y *= 2\n  var c = 'a'\n  ++c\n  [x, y, c]" % rng.randrange(9),
    ])
    return "def %s(p) {\n  %s\n}\n" % (name, body)


def mutparam_function(rng, name):
    """assigns to its parameter: must fail identically every time, or succeed without leaving a trace in the caller's expression"""
    mut = rng.choice(["p = p", "p = !p", "p += 1", "p = p + p", "++p", "p *= 2", "p = -p", "p.push_back(1)", "p += \"x\"", "p = [9]", "p = false", "p = 0",
                      "p := 7", "var other = 99; p := other", "p := \"rebound\"", "p := [1, 2]", "var o2 = !p; p := o2"])
    return "def %s(p) {\n  var old = p\n  %s\n  [old, p]\n}\n" % (name, mut)


def reentrant_function(rng, name):
    """the same tree is evaluated again while an evaluation of it is still in progress (recursion out of a loop body): what the outer
    evaluation holds (loop counter, locals, containers built from literals) must not be touched by the inner one. Results are known in
    closed form. -> (source, call expression, expected rendering)"""
    k = rng.randrange(2, 5)
    d = rng.randrange(1, 3)
    tri = k * (k + 1) // 2
    w = tri
    for _ in range(d):
        w = tri + k * w
    form = rng.randrange(5)
    if form == 0:      # the canonical counted loop (compiled by the optimizer)
        src = "def %s(d) {\n  var s = 0\n  for (var i = 0; i < %d; ++i) {\n    s += i + 1\n    if (d > 0) { s += %s(d - 1) }\n  }\n  s\n}\n" % (name, k, name)
        return src, "%s(%d)" % (name, d), "int:%d" % w
    if form == 1:      # while loop
        src = "def %s(d) {\n  var s = 0\n  var i = 0\n  while (i < %d) {\n    ++i\n    s += i\n    if (d > 0) { s += %s(d - 1) }\n  }\n  s\n}\n" % (name, k, name)
        return src, "%s(%d)" % (name, d), "int:%d" % w
    if form == 2:      # ranged for over a literal
        lit = "[" + ", ".join(str(i + 1) for i in range(k)) + "]"
        src = "def %s(d) {\n  var s = 0\n  for (x : %s) {\n    s += x\n    if (d > 0) { s += %s(d - 1) }\n  }\n  s\n}\n" % (name, lit, name)
        return src, "%s(%d)" % (name, d), "int:%d" % w
    if form == 3:      # counted loop whose closures are called after the inner evaluation ran the same loop
        src = ("def %s(d) {\n  var fs = []\n  for (var i = 0; i < %d; ++i) {\n    fs.push_back(fun[i]() { i })\n    if (d > 0 && i == 0) { %s(d - 1) }\n  }\n"
               "  var r = []\n  for (f : fs) { r.push_back(f()) }\n  r\n}\n" % (name, k, name))
        # a capture shares the variable: after the loop every closure sees the counter's final value - of *its own* evaluation's counter
        return src, "%s(%d)" % (name, d), "[" + ", ".join("int:%d" % k for i in range(k)) + "]"
    # locals and literal-built containers across an inner evaluation
    src = "def %s(d) {\n  var a = [d, 10]\n  var t = \"v\"\n  if (d > 0) { %s(d - 1) }\n  a[0] += 1\n  t += \"w\"\n  [a[0], a[1], t]\n}\n" % (name, name)
    return src, "%s(%d)" % (name, d), "[int:%d, int:10, string:vw]" % (d + 1)


def gen_case(rng, idx):
    nf = rng.randrange(2, 5)
    defs = ""
    names = []
    if rng.random() < 0.3:
        rname = "re%d" % (idx % 1000)
        src, call, want = reentrant_function(rng, rname)
        defs += src
        names.append((rname, "reentrant", (call, want)))
    if rng.random() < 0.4:
        mname = "mp%d" % (idx % 1000)
        defs += mutparam_function(rng, mname)
        names.append((mname, "mut", None))
    for j in range(nf):
        name = "t%d_%d" % (idx % 1000, j)
        k = rng.random()
        if k < 0.2:
            defs += numeric_literal_function(rng, name)
        elif k < 0.7:
            defs += template_function(rng, name)
        else:
            g = gen.Gen(rng, PROFILE)
            st = None
            while st is None:
                cand = g.s_def()
                if cand and cand[0][0] == "def" and len(cand[0][2]) >= 0:
                    st = cand[0]
            # generated function: rename, make it take whatever parameters it declared
            st = ("def", name) + st[2:]
            defs += printer.Printer().program([st])
            names.append((name, [t for _, t in st[2]], g))
            continue
        names.append((name, None, None))
    calls = []
    expected = {}
    for name, ptypes, g in names:
        for _ in range(rng.randrange(1, 3)):
            if ptypes == "reentrant":
                expected[len(calls)] = g[1]
                calls.append(g[0])
            elif ptypes == "mut":
                calls.append("%s(%s)" % (name, rng.choice(FOLDABLE_ARGS)))
            elif ptypes is None:
                arg = lit_int(rng)
                k = rng.random()
                if k < 0.5:
                    calls.append("%s(%s)" % (name, arg))
                elif k < 0.75:
                    calls.append("fun() { var t = %s(%s); t }()" % (name, arg))
                else:
                    calls.append("fun() { var t = [%s(%s), 7]; t.push_back(1); t[1] = 5; t }()" % (name, arg))
            else:
                args = []
                for t in g.funcs[list(g.funcs)[-1]][0]:
                    args.append({"int": lit_int(rng), "bool": rng.choice(["true", "false"]), "str": lit_str(rng), "vec": lit_vec(rng, 0)}[t])
                calls.append("%s(%s)" % (name, ", ".join(args)))
    order = []
    reps = rng.randrange(3, 7)
    for _ in range(reps):
        idxs = list(range(len(calls)))
        rng.shuffle(idxs)
        order += idxs
    return defs, order, calls, expected


def run(ctx, tier, seed, scale=1.0):
    rng = random.Random(seed)
    quick = tier == "quick"
    exe = vlib.build("asan", ["c08_reeval"])["c08_reeval"]
    n = int((2500 if quick else 200000) * scale)
    plans = [gen_case(rng, i) for i in range(n)]
    cases = [["R", d, ",".join(map(str, o))] + c for d, o, c, _ in plans]
    res, hf = vlib.run_cases(exe, cases, "c08", timeout_s=120, batch=16)
    ctx.harness_failures += hf
    vlib.judge_crashes(ctx, exe, cases, res, "c08", timeout_s=120, describe=lambda k: {"defs": plans[k][0], "calls": plans[k][2]})
    for (defs, order, calls, expected), r in zip(plans, res):
        ctx.evaluations += 1
        if r.status != "ok":
            continue
        f = r.fields
        d0 = f[0].split(US)
        if d0[0] != "ok":
            ctx.count("defs-rejected:" + d0[0])
            ctx.inconc("generated definitions did not evaluate: " + d0[1][:60], defs)
            continue
        if f[1] != "trees-unchanged":
            ctx.violation("parse-tree-changed-by-evaluation", {"defs": defs, "calls": calls})
        first = {}
        ok_calls = 0
        for rec in f[2:]:
            p = rec.split(US)
            j = int(p[0])
            obs = tuple(p[1:4])
            ctx.count("executions")
            if p[1] == "ok":
                ok_calls += 1
            if j in expected:
                ctx.count("reentrant-evaluations")
                if obs[0] != "ok" or obs[1] != expected[j]:
                    ctx.violation("nested-evaluation-disturbs-outer:%s" % ("result" if obs[0] == "ok" else "class"),
                                  {"defs": defs, "call": calls[j], "expected": expected[j], "got": list(obs)})
                    break
            if j not in first:
                first[j] = (obs, p[4] if len(p) > 4 else "")
            elif first[j][0] != obs:
                kind = "result" if first[j][0][1] != obs[1] else ("class" if first[j][0][0] != obs[0] else "output")
                ctx.violation("re-evaluation-differs:%s" % kind,
                              {"defs": defs, "call": calls[j], "first": list(first[j][0]), "later": list(obs), "order": order, "all_calls": calls})
                break
        if ok_calls >= 3:
            ctx.nontriv(defs + "|".join(calls))
        if len(ctx.samples) < 3 and rng.random() < 0.002:
            ctx.sample({"defs": defs[:1200], "calls": calls, "order": order})
    ctx.min_events["executions"] = 1000
    if not ctx.samples:
        ctx.sample({"defs": plans[0][0][:1200], "calls": plans[0][2], "order": plans[0][1]})
    ctx.rule = ("one case = 2-4 generated functions (70% literal-building templates: ints, strings, interpolated strings, inline vectors/maps/ranges, "
                "booleans incl. foldable ones, mutated by +=, ++, push_back, []=, insert_at, erase_at, clear and returned by value / last expression / "
                "through a lambda / inside a container; 30% chailang functions; in 30% of the cases a function that re-enters itself out of a loop body, with its result known in closed form) and 1-2 call expressions each (also mutating the returned value), every "
                "call executed 3-6 times in a seeded interleaving, alternately from text and from its stored parse tree; non-trivial iff >= 3 executions "
                "completed normally; distinct by source")
    ctx.assumptions += ["functions do not touch globals, so equal arguments imply an equal environment",
                        "AST dumps show node kinds/text/positions, not the values held by Constant nodes; value changes are caught by the history oracle"]
