"""C06 - C++ functions are only ever entered with correctly typed arguments.
Inbound: seeded overload sets (1-4 signatures of equal arity from a catalogue of 58 one-parameter forms - value, const&, &, *, const*,
shared_ptr, shared_ptr<const> over int/double/bool/string/Base/Derived/Other, other arithmetic types, Boxed_Value, Boxed_Number, std::function,
vector - and 12 two-parameter signatures) registered under one name in a seeded order; every logging function records which overload was
entered, what it received and at which address. Calls use argument tuples from 34 script value kinds (literals, variables, const/non-const
C++ objects shared by reference / pointer / shared_ptr, script-created objects, return values, functions, Dynamic_Objects, undefined,
vectors). Trace specification over the entry log: at most one entry per call, exactly one when the call returns, none when it fails; the
entered overload must be admissible (MUST/MAY/NEVER table from the documented conversions); an error is wrong when a MUST overload exists;
an exact overload is preferred; by-reference arguments of the parameter's own type arrive at the same address; values arrive equal (after
conversion). Outbound: eval<T>, boxed_cast<T> and std::function<T()> for (value kind, T) pairs: value iff admissible, else bad_boxed_cast."""
import random

import vlib

LEVEL = "exploration"
US = "\x1f"

TYPES = ["int", "double", "bool", "string", "Base", "Derived", "Other"]
FORMS = ["val", "cref", "ref", "ptr", "cptr", "sh", "csh"]
CAT1 = [(t, f) for t in TYPES for f in FORMS] + [("char", "val"), ("uint", "val"), ("long", "val"), ("float", "val"), ("llong", "cref"),
                                                  ("Boxed_Value", "val"), ("Boxed_Number", "val"), ("function", "val"), ("vector", "cref"),
                                                  ("intvector", "cref"), ("intmap", "cref"), ("Wrapped", "cref")]
CAT2 = [(("int", "val"), ("int", "val")), (("int", "val"), ("double", "val")), (("double", "val"), ("int", "val")), (("int", "val"), ("string", "cref")),
        (("string", "cref"), ("int", "val")), (("Base", "cref"), ("int", "val")), (("Derived", "ref"), ("int", "val")), (("bool", "val"), ("int", "val")),
        (("Boxed_Value", "val"), ("Boxed_Value", "val")), (("string", "cref"), ("string", "cref")), (("int", "ref"), ("int", "ref")),
        (("double", "val"), ("double", "val"))]
ARITH = {"int", "double", "char", "uint", "long", "float", "llong"}

# kind -> (bare type, const?, storage, is-named-variable, numeric/str value)
KINDS = {
    "lit_int": ("int", True, "shared", False, 5), "var_int": ("int", False, "shared", True, 5), "const_int": ("int", True, "ref", True, 72),
    "href_int": ("int", False, "ref", True, 71), "lit_dbl": ("double", True, "shared", False, 2.5), "var_dbl": ("double", False, "shared", True, 2.5),
    "lit_bool": ("bool", True, "shared", False, True), "var_bool": ("bool", False, "shared", True, True),
    "lit_str": ("string", True, "shared", False, "s"), "var_str": ("string", False, "shared", True, "str"), "href_str": ("string", False, "ref", True, "harness-string"),
    "var_char": ("char", False, "shared", True, 99), "var_long": ("long", False, "shared", True, 7), "var_uint": ("uint", False, "shared", True, 8),
    "var_float": ("float", False, "shared", True, 1.5),
    "base": ("Base", False, "ref", True, None), "derived": ("Derived", False, "ref", True, None), "other": ("Other", False, "ref", True, None),
    "const_base": ("Base", True, "ref", True, None), "const_derived": ("Derived", True, "ref", True, None),
    "shared_base": ("Base", False, "shared", True, None), "shared_derived": ("Derived", False, "shared", True, None),
    "shared_const_base": ("Base", True, "shared", True, None), "shared_const_derived": ("Derived", True, "shared", True, None), "ptr_base": ("Base", False, "ref", True, None),
    "script_base": ("Base", False, "shared", True, None), "script_derived": ("Derived", False, "shared", True, None), "script_other": ("Other", False, "shared", True, None),
    "script_fn": ("function", True, "shared", True, None), "dynobj": ("dynobj", False, "shared", True, None), "undef": ("undef", False, "shared", True, None),
    "vector": ("vector", False, "shared", True, None), "map": ("map", False, "shared", True, None), "vector_mixed": ("vector", False, "shared", True, "mixed"),
    "ret_int": ("int", True, "shared", False, 6), "ret_str": ("string", False, "shared", False, "strx"),
}
MUST, MAY, NEVER = "MUST", "MAY", "NEVER"


def related(a, t):
    return a == t or (a == "Derived" and t == "Base")


def admit(param, kind):
    t, f = param
    a, c, st, named, _ = KINDS[kind]
    if t == "Boxed_Value":
        return MUST
    if t == "Boxed_Number":
        return MUST if a in ARITH else NEVER
    if t == "function":
        return MUST if a == "function" else NEVER
    if t == "vector":
        return MUST if a == "vector" else NEVER
    if t == "intvector":      # registered vector_conversion: every element must itself convert to int
        if a != "vector":
            return NEVER
        return MAY if KINDS[kind][4] == "mixed" else MUST
    if t == "intmap":         # registered map_conversion
        return MUST if a == "map" else NEVER
    if t == "Wrapped":        # registered user conversion Other -> Wrapped
        return MUST if a == "Other" else NEVER
    if t in ARITH:
        if a not in ARITH:
            return NEVER
        same = a == t
        if f in ("val", "cref"):
            return MUST
        if f in ("ref", "ptr"):
            if same:
                return NEVER if c else MUST
            return MAY
        if f == "cptr":
            return MUST if same else MAY
        if f == "sh":
            return MUST if (same and not c and st == "shared") else MAY
        return MUST if (same and st == "shared") else MAY
    if t == "bool" or t == "string" or t in ("Base", "Derived", "Other"):
        if t in ("bool", "string"):
            if a != t:
                return NEVER
        elif not related(a, t):
            return NEVER
        if f in ("val", "cref", "cptr"):
            return MUST
        if f in ("ref", "ptr"):
            return NEVER if c else MUST
        if f == "sh":
            if c:
                return NEVER
            return MUST if st == "shared" else MAY
        return MUST if st == "shared" else MAY
    return NEVER


def combined(sig, kinds):
    r = [admit(p, k) for p, k in zip(sig, kinds)]
    if NEVER in r:
        return NEVER
    return MUST if all(x == MUST for x in r) else MAY


def exact(sig, kinds):
    return all(p[0] == KINDS[k][0] or (p[0] == "llong" and False) for p, k in zip(sig, kinds)) and combined(sig, kinds) == MUST


def expected_recv(param, kind):
    """rendering the logging function must report, or None if not judged"""
    t, f = param
    a, c, st, named, v = KINDS[kind]
    if t in ARITH and a in ARITH:
        if t in ("int", "long", "llong", "uint", "char"):
            return "num:%d" % int(v)
        return "num:%.17g" % float(v)
    if t == "bool" and a == "bool":
        return "bool:true"
    if t == "string" and a == "string":
        return "string:%s" % v
    if t == "intvector" and a == "vector" and v != "mixed":
        return "intvector:1,2,"
    if t == "intmap" and a == "map":
        return "intmap:a=1,b=2,"
    if t == "Wrapped" and a == "Other":
        return "wrapped:1033"
    return None


def run(ctx, tier, seed, scale=1.0):
    rng = random.Random(seed)
    quick = tier == "quick"
    exe = vlib.build("asan", ["c06_dispatch"])["c06_dispatch"]
    nsets = int((2500 if quick else 150000) * scale)
    cases, meta = [], []
    kinds = list(KINDS)
    for _ in range(nsets):
        if rng.random() < 0.75:
            sigs = rng.sample(range(len(CAT1)), rng.choice([1, 1, 2, 2, 3, 4]))
            spec = [str(i) for i in sigs]
            sig_defs = [(CAT1[i],) for i in sigs]
            calls = [(rng.choice(kinds),) for _ in range(10)]
            # always attack every signature with a same-type const / non-const / derived / unrelated argument
            calls += [("lit_int",), ("var_int",), ("const_int",), ("var_dbl",), ("lit_bool",), ("var_str",), ("lit_str",), ("derived",), ("const_derived",),
                      ("shared_derived",), ("shared_const_derived",), ("other",), ("undef",), ("vector",), ("map",), ("vector_mixed",), ("script_other",)][:rng.randrange(4, 12)]
            calls += [(), (rng.choice(kinds), rng.choice(kinds))]          # wrong arity
        else:
            sigs = rng.sample(range(len(CAT2)), rng.choice([1, 2, 3]))
            spec = ["2:%d" % i for i in sigs]
            sig_defs = [CAT2[i] for i in sigs]
            calls = [(rng.choice(kinds), rng.choice(kinds)) for _ in range(10)] + [("var_int", "var_int"), ("lit_int", "lit_dbl"), ("var_str", "var_int"),
                                                                                    ("derived", "lit_int"), ("const_derived", "var_int"), ("var_bool", "var_int")]
            calls += [(rng.choice(kinds),), (rng.choice(kinds),) * 3]
        cases.append(["D", ",".join(spec)] + [";".join(c) for c in calls])
        meta.append(("D", sig_defs, calls))
    # outbound
    targets = {"int": ("int", "val"), "double": ("double", "val"), "bool": ("bool", "val"), "string": ("string", "val"), "unsigned": ("uint", "val"),
               "long": ("long", "val"), "char": ("char", "val"), "Base": ("Base", "val"), "Derived": ("Derived", "val"), "Other": ("Other", "val"),
               "int&": ("int", "ref"), "const string&": ("string", "cref"), "Base&": ("Base", "ref"), "const Base&": ("Base", "cref"), "Derived&": ("Derived", "ref"),
               "Base*": ("Base", "ptr")}
    for k in kinds:
        for t in targets:
            cases.append(["O", k, t])
            meta.append(("O", k, t, targets[t]))
    res, hf = vlib.run_cases(exe, cases, "c06", timeout_s=180, batch=8)
    ctx.harness_failures += hf
    vlib.judge_crashes(ctx, exe, cases, res, "c06", timeout_s=180, describe=lambda k: {"case": cases[k]})
    for m, c, r in zip(meta, cases, res):
        if r.status != "ok":
            ctx.evaluations += 1
            continue
        if m[0] == "D":
            _, sig_defs, calls = m
            ctx.nontriv(repr(c))
            for call, rec in zip(calls, r.fields):
                ctx.evaluations += 1
                p = rec.split(US)
                cls, entries = p[0], p[2:]
                wit = {"overloads_in_registration_order": ["(" + ", ".join("%s %s" % x for x in s) + ")" for s in sig_defs], "arguments": list(call),
                       "outcome": p[:2], "entries": entries}
                arity_ok = [len(s) == len(call) for s in sig_defs]
                status = [combined(s, call) if ok else NEVER for s, ok in zip(sig_defs, arity_ok)]
                wit["admissibility"] = status
                ctx.count("calls")
                if len(entries) > 1:
                    ctx.violation("more-than-one-entry", wit)
                    continue
                if cls == "ok" and len(entries) != 1:
                    ctx.violation("call-returned-without-entering-exactly-one-overload", wit)
                    continue
                if cls != "ok" and entries:
                    ctx.count("entered-then-failed")
                if entries:
                    k = int(entries[0].split(":")[0])
                    ctx.count("entries")
                    if status[k] == NEVER:
                        ctx.violation("entered-inadmissible-overload:%s" % _why(sig_defs[k], call), wit)
                        continue
                    if any(exact(s, call) for s in sig_defs) and not exact(sig_defs[k], call):
                        ctx.violation("non-exact-overload-preferred-over-exact", wit)
                        continue
                    recv = entries[0].split(":", 1)[1].rsplit(":", 1)
                    got_vals, idents = recv[0].split("|"), recv[1].split("|")
                    for (param, kind, gv, idn) in zip(sig_defs[k], call, got_vals, idents):
                        want = expected_recv(param, kind)
                        if want is not None and gv != want and status[k] == MUST:
                            ctx.violation("received-value-differs:%s-%s" % param, dict(wit, expected=want, got=gv))
                        a, cst, st, named, _ = KINDS[kind]
                        if named and param[1] in ("cref", "ref", "ptr", "cptr", "sh", "csh") and (a == param[0] or (related(a, param[0]) and param[0] == "Base")) \
                                and admit(param, kind) == MUST and idn != "same":
                            ctx.violation("by-reference-argument-arrives-at-another-address:%s-%s" % param, wit)
                else:
                    # An error is only wrong when the choice is unambiguous: the set has a single overload of this arity, or an exact one.
                    # (Several non-exact arithmetic candidates are legitimately refused as ambiguous; which one would win is unspecified.)
                    n_arity = sum(arity_ok)
                    exact_ones = [s for s in sig_defs if len(s) == len(call) and exact(s, call)]
                    if MUST in status and (n_arity == 1 or exact_ones):
                        ctx.violation("error-although-admissible-overload-exists:%s" % _why(sig_defs[status.index(MUST)], call), wit)
                    elif MUST in status:
                        ctx.count("ambiguous-non-exact-candidates-refused(unspecified)")
        else:
            _, kind, tname, param = m
            ctx.evaluations += 1
            ctx.nontriv("O" + kind + tname)
            st = admit(param, kind)
            if st == MUST and KINDS[kind][0] != param[0]:
                st = MAY          # handing a value over as another (convertible) type is permitted, not promised
            for route in r.fields:
                name, outcome = route.split(":", 1)
                ctx.count("outbound:" + name)
                wit = {"value_kind": kind, "requested_type": tname, "route": name, "outcome": outcome, "admissibility": st}
                if outcome.startswith("value"):
                    if st == NEVER:
                        ctx.violation("outbound-value-handed-over-as-inadmissible-type:%s" % name, wit)
                else:
                    if st == MUST and not (name == "function" and param[1] != "val"):
                        ctx.violation("outbound-refused-although-admissible:%s" % name, wit)
                    elif not outcome.startswith("bad_boxed_cast"):
                        ctx.violation("outbound-wrong-exception:%s:%s" % (name, outcome.split("(")[-1].rstrip(")")[:50] if "(" in outcome else outcome[:30]), wit)
    ctx.sample({"overloads": meta[0][1], "calls": meta[0][2][:6]})
    ctx.min_events["entries"] = 2000
    ctx.rule = ("inbound: one case = an overload set (1-4 signatures, seeded registration order) + 16-25 calls incl. wrong arity; evaluations = calls; "
                "outbound: all 33 value kinds x 16 requested types x 3 routes; admissibility table: MUST (documented conversions: same type, arithmetic<->"
                "arithmetic except bool, derived->base, catch-alls), MAY (unspecified: converted temporaries for T&/shared_ptr<T>, objects not owned by a "
                "shared_ptr), NEVER; distinct by overload set + calls")
    ctx.assumptions += ["which of several equally non-exact admissible overloads is chosen is not specified and not checked",
                        "cells marked MAY are logged, never judged"]


def _why(sig, call):
    return "+".join("%s-%s<-%s" % (p[0], p[1], KINDS[k][0] + ("(const)" if KINDS[k][1] else "")) for p, k in zip(sig, call))[:90]
