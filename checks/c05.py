"""C05 - script arithmetic is C++ arithmetic; trapping operations raise arithmetic_error.
The harness enumerates (operator x L x R x boundary values) for five routes and compares with the host compiler's own
result computed in the same TU; this driver shards the (route, L, R) blocks and aggregates."""
import random

import vlib

LEVEL = "exploration"
NT = 14
TYPES = ["char", "schar", "uchar", "short", "ushort", "int", "uint", "long", "ulong", "llong", "ullong", "float", "double", "ldouble"]


def run(ctx, tier, seed, scale=1.0):
    rng = random.Random(seed)
    quick = tier == "quick"
    exe = vlib.build("asan", ["c05_arith"])["c05_arith"]
    cases = []
    for route in ("node", "func", "compound"):
        for li in range(NT):
            for ri in range(NT):
                cases.append(["PAIR", route, str(li), str(ri), "1", "0"])
    stride = 8 if quick else 1
    for route in ("rfold", "cfold"):
        for li in range(NT):
            for ri in range(NT):
                cases.append(["PAIR", route, str(li), str(ri), str(stride), str(rng.randrange(stride))])
    for route in ("node", "func"):
        for li in range(NT):
            cases.append(["UNARY", route, str(li)])
    res, hf = vlib.run_cases(exe, cases, "c05", timeout_s=900, batch=1)
    ctx.harness_failures += hf
    vlib.judge_crashes(ctx, exe, cases, res, "c05", timeout_s=900)
    tot = {"cells": 0, "skipped_ub": 0, "trap": 0, "value": 0, "unspellable": 0}
    for c, r in zip(cases, res):
        if r.status != "ok":
            continue
        f = r.fields
        if f[0] == "bad-case":
            ctx.harness_failures.append(("bad-case", c))
            continue
        cells, skipped, trap, value, unsp = (int(x) for x in f[:5])
        route = c[1]
        ctx.evaluations += cells - skipped
        ctx.count("cells:" + route, cells)
        ctx.count("executed:" + route, cells - skipped)
        ctx.count("skipped-undefined-in-c++", skipped)
        ctx.count("trap-cells:" + route, trap)
        ctx.count("unspellable-literal-cells", unsp)
        if cells - skipped > 0:
            ctx.nontriv("|".join(c))
        counts = {}
        for kv in f[5].split(";"):
            if kv:
                k, v = kv.rsplit("=", 1)
                counts[k] = int(v)
        seen = set()
        for rec in f[6:]:
            p = rec.split("|")
            kind, rt, op = p[0], p[1], p[2]
            wit = {"route": rt, "op": op, "L": p[3], "R": p[4], "l": p[5], "r": p[6], "expected": p[7], "got": "|".join(p[8:])}
            k = "%s|%s|%s" % (kind, rt, op)
            n = counts.get(k, 1) if k not in seen else 0
            seen.add(k)
            if n:
                ctx.violation("%s:%s:%s" % (kind, rt, op), wit, n)
        if len(ctx.samples) < 5 and c[0] == "PAIR" and rng.random() < 0.02:
            ctx.sample({"block": c, "cells": cells, "skipped_as_undefined": skipped, "trap_cells": trap})
    ctx.nontrivial = set(ctx.nontrivial)
    ctx.rule = ("one case = one (route, L, R) block of the matrix 16 binary + 11 assignment + 5 unary operators x 14 arithmetic types^2 x "
                "17-20 boundary values^2; routes node/func/compound enumerated completely, rfold/cfold sampled 1/%d (quick) or completely; "
                "evaluations = executed cells (C++-undefined non-trapping cells are skipped by predicate and counted separately); "
                "a block is non-trivial if at least one cell was executed" % stride)
    ctx.exhaustive = (stride == 1)
    ctx.min_events["trap-cells:node"] = 100
    ctx.min_events["executed:cfold"] = 1000
    ctx.assumptions += ["the host compiler (clang 14, x86-64) is the arithmetic oracle",
                        "wchar_t/char16_t/char32_t are covered only through their size/signedness class",
                        "values are the listed boundary rows, not all 2^64"]
    if not ctx.samples:
        ctx.sample({"block": cases[0]})
