"""C13 - one engine may be used from many threads at once.
Randomised stress of one engine from T in {2,3,4,8,16} threads under ThreadSanitizer (g++), with seeded yields injected before every
engine lock acquisition (hook H4). Oracles: TSan reports whose stacks are inside chaiscript (parsed from log files, de-duplicated by the
first chaiscript frames of both accesses); result/visibility/inventory/use-once oracles inside the harness; watchdog for deadlocks.
Evidence reports rounds, distinct schedule signatures (order of threads at lock sites) and thread switches actually observed."""
import os
import random
import re
import shutil
import subprocess
import time

import vlib

LEVEL = "exploration"


def parse_tsan(text):
    """-> list of (kind, key, block)"""
    out = []
    for block in re.split(r"(?==================\n)", text):
        m = re.search(r"WARNING: ThreadSanitizer: ([^\(\n]+)", block)
        if not m:
            continue
        kind = m.group(1).strip().replace(" ", "-")
        frames = []
        for part in re.split(r"\n\s*\n", block):
            fs = re.findall(r"#\d+ (.+?) (?:/|\(|<null>)", part)
            cs = [f for f in fs if "chaiscript" in f]
            if cs:
                fn = re.sub(r"<[^<>]*>", "", cs[0])
                for _ in range(6):
                    fn = re.sub(r"<[^<>]*>", "", fn)
                fn = re.sub(r"\(.*$", "", fn).replace("chaiscript::", "")
                frames.append(fn.split(" ")[-1][:70])
            if len(frames) >= 2:
                break
        if not frames:
            continue      # a report without any chaiscript frame is not about the engine
        out.append((kind, "|".join(sorted(frames[:2])), block[:3000]))
    return out


def run(ctx, tier, seed, scale=1.0):
    rng = random.Random(seed)
    quick = tier == "quick"
    exe = vlib.build("tsan", ["c13_threads"])["c13_threads"]
    d = vlib.scratch_dir("c13")
    with open(os.path.join(d, "c13_used.chai"), "w") as fh:
        fh.write("bump_use()\n")
    nproc = max(2, vlib.NCPU // 4)
    rounds_total = int((40 if quick else 2000) * scale)
    plans = []
    for i in range(rounds_total):
        plans.append((rng.randrange(1, 2**31), rng.choice([2, 3, 4, 4, 8, 8, 16]), rng.choice([20, 30, 40]), rng.choice([0, 100, 300, 600])))
    env = dict(os.environ)
    results = []
    pending = list(enumerate(plans))
    running = []
    t_start = time.time()
    inconclusive = []

    def launch(i, pl):
        s, T, ops, yp = pl
        logp = os.path.join(d, "tsan.%d" % i)
        e = dict(env)
        e["TSAN_OPTIONS"] = "halt_on_error=0:exitcode=0:second_deadlock_stack=1:history_size=4:log_path=%s" % logp
        outp = open(os.path.join(d, "out.%d" % i), "w")
        pr = subprocess.Popen([exe, str(s), "1", str(T), str(ops), d, str(yp)], stdout=outp, stderr=subprocess.STDOUT, env=e)
        return (pr, outp, i, pl, time.time())

    while pending or running:
        while pending and len(running) < nproc:
            i, pl = pending.pop(0)
            running.append(launch(i, pl))
        for item in list(running):
            pr, outp, i, pl, t0 = item
            rc = pr.poll()
            if rc is None:
                if time.time() - t0 > 600:
                    pr.kill()
                    pr.wait()
                    outp.close()
                    running.remove(item)
                    results.append((i, pl, "timeout", ""))
                continue
            outp.close()
            running.remove(item)
            with open(os.path.join(d, "out.%d" % i), errors="replace") as fh:
                results.append((i, pl, rc, fh.read()))
        time.sleep(0.05)

    sigs = set()
    switches = 0
    races = {}
    for i, pl, rc, out in sorted(results):
        ctx.evaluations += 1
        s, T, ops, yp = pl
        wit = {"seed": s, "threads": T, "ops_per_thread": ops, "yield_permille": yp,
               "replay": "%s %d 1 %d %d <dir with c13_used.chai> %d" % (os.path.basename(exe), s, T, ops, yp)}
        if rc == "timeout":
            # re-run once alone before calling it a hang
            pr, outp, _, _, _ = launch(10**6 + i, pl)
            try:
                pr.wait(timeout=600)
                outp.close()
                ctx.inconc("watchdog-expired-once", wit)
            except subprocess.TimeoutExpired:
                pr.kill()
                outp.close()
                ctx.violation("hang:deadlock-or-livelock:threads-%d" % T, wit)
            continue
        if rc != 0:
            wit["output"] = out[-2000:]
            ctx.violation("crash:exit-%s" % rc, wit)
            continue
        for line in out.splitlines():
            if line.startswith("ROUND"):
                kv = dict(x.split("=") for x in line.split()[2:])
                sigs.add(kv["signature"])
                switches += int(kv["thread_switches"])
                ctx.count("lock-acquisitions-observed", int(kv["lock_events"]))
                ctx.count("registrations-published", int(kv["published"]))
                ctx.count("rounds:threads=%s" % kv["threads"])
                if int(kv["thread_switches"]) >= 2:
                    ctx.nontriv(kv["signature"])
            elif line.startswith("FAIL "):
                msg = vlib.unesc(line[5:])
                w = dict(wit)
                w["failure"] = msg
                rule = re.sub(r"[0-9]+", "N", msg.split("->")[0].split(":")[0])[:60].strip().replace(" ", "-")
                ctx.violation("oracle:%s" % rule, w)
        # TSan logs
        for fn in os.listdir(d):
            if fn.startswith("tsan.%d." % i):
                with open(os.path.join(d, fn), errors="replace") as fh:
                    for kind, key, block in parse_tsan(fh.read()):
                        w = dict(wit)
                        w["report"] = block
                        ctx.violation("tsan:%s:%s" % (kind, key), w)
                        races[key] = races.get(key, 0) + 1
    ctx.counters["distinct-schedule-signatures"] = len(sigs)
    ctx.counters["thread-switches-at-lock-sites"] = switches
    ctx.counters["tsan-report-sites"] = races
    ctx.min_events["thread-switches-at-lock-sites"] = 50
    ctx.sample({"plan (seed, threads, ops/thread, yield permille)": plans[0]})
    ctx.sample({"ops": "shared calls, colliding locals, def/global/class/add(fun)/add(type_conversion) + publish, call published, use(file), get_state"})
    shutil.rmtree(d, ignore_errors=True)
    ctx.rule = ("one case = one round: a fresh engine driven by T threads (2..16) running seeded lists of 20-40 operations each with seeded yields "
                "(0-60%) before lock acquisitions; a round is non-trivial if at least two thread switches were observed at lock sites; distinct by "
                "schedule signature (hash of the global order of (thread, lock site) events)")
    ctx.assumptions += ["schedules are sampled, not enumerated; TSan sees only executed accesses", "set_state is not part of the concurrent mix (not in the property)"]
