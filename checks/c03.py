"""C03 - core language semantics match the documented (C++-like) model.
Reference-model oracle: programs are generated as ASTs, printed to ChaiScript text and run on the real engine, and evaluated directly on
the AST by an independent reference interpreter (lib/chailang/interp.py; no second parser). Printed output, final value + type and error
class must agree. A divergence is attributed to a recorded finding only if re-running the *model* with exactly that finding's deviation
switch reproduces the engine's complete observable behaviour; otherwise it is a violation with the program as witness.
A second family prints integer/boolean expressions with minimal parentheses, so that the engine's precedence/associativity table is
compared with the AST's structure."""
import random

import gen
import interp
import printer
import vlib

LEVEL = "exploration"

PROFILE = {"w_try": 3, "w_switch": 5, "top_min": 5, "top_max": 16, "unguarded_div": 0.04, "size": 420}
DEVIATIONS = ["shallow_container_copy"]


def prec_expr(rng, depth, typ):
    if typ == "int":
        if depth <= 0 or rng.random() < 0.25:
            return ("int", rng.randrange(0, 20))
        k = rng.random()
        if k < 0.75:
            op = rng.choice(["+", "-", "*", "/", "%", "&", "|", "^", "<<", ">>", "+", "-", "*"])
            a = prec_expr(rng, depth - 1, "int")
            b = prec_expr(rng, depth - 1, "int")
            if op in ("/", "%"):
                b = ("int", rng.randrange(1, 9))
            if op in ("<<", ">>"):
                a = ("bin", "&", a, ("int", 15))
                b = ("int", rng.randrange(0, 4))
            return ("bin", op, a, b)
        if k < 0.85:
            return ("un", "-", prec_expr(rng, depth - 1, "int"))
        return ("tern", prec_expr(rng, depth - 1, "bool"), prec_expr(rng, depth - 1, "int"), prec_expr(rng, depth - 1, "int"))
    if depth <= 0 or rng.random() < 0.15:
        return ("bool", rng.random() < 0.5)
    k = rng.random()
    if k < 0.45:
        return ("bin", rng.choice(["<", "<=", ">", ">=", "==", "!="]), prec_expr(rng, depth - 1, "int"), prec_expr(rng, depth - 1, "int"))
    if k < 0.85:
        return ("bin", rng.choice(["&&", "||"]), prec_expr(rng, depth - 1, "bool"), prec_expr(rng, depth - 1, "bool"))
    return ("un", "!", prec_expr(rng, depth - 1, "bool"))


def observe_model(prog, deviations=()):
    it = interp.Interp(deviations)
    try:
        out, cls, val = it.run(prog)
    except RuntimeError as e:
        return None
    return out, cls, val, ",".join(str(t) for t in it.ticks)


def run(ctx, tier, seed, scale=1.0):
    rng = random.Random(seed)
    quick = tier == "quick"
    exe = vlib.build("asan", ["c02_diff"])["c02_diff"]
    n = int((4000 if quick else 400000) * scale)
    nprec = int((2500 if quick else 100000) * scale)
    progs = []
    for i in range(n):
        g = gen.Gen(rng, PROFILE)
        g.funcs["tick"] = ([gen.INT], gen.INT, 1, False, [False])
        prog = g.program()
        progs.append(("program", prog, printer.Printer().program(prog)))
    mp = printer.Printer(minimal_parens=True)
    for i in range(nprec):
        e = prec_expr(rng, rng.randrange(2, 5), rng.choice(["int", "int", "bool"]))
        prog = [("expr", e)]
        progs.append(("precedence", prog, mp.e(e) + "\n"))
    cases = [["S", src] for _, _, src in progs]
    res, hf = vlib.run_cases(exe, cases, "c03", timeout_s=120, batch=32)
    ctx.harness_failures += hf
    vlib.judge_crashes(ctx, exe, cases, res, "c03", timeout_s=120, describe=lambda k: {"family": progs[k][0], "program": progs[k][2]})
    for (fam, prog, src), r in zip(progs, res):
        ctx.evaluations += 1
        if r.status != "ok":
            continue
        cls, val, reason, out, effects = r.fields[:5]
        ticks = effects.split("|")[0].rstrip(",")
        m = observe_model(prog)
        ctx.count("family:" + fam)
        if m is None:
            ctx.inconc("model-step-limit", src)
            continue
        mout, mcls, mval, mticks = m
        ctx.count("outcome:" + mcls)
        if fam == "program":
            if src.count("\n") >= 6:
                ctx.nontriv(src)
        else:
            ctx.nontriv(src)
        got = (out, cls, val if cls in ("ok", "boxed") else "", ticks)
        want = (mout, mcls, mval if mcls in ("ok", "boxed") else "", mticks)
        if got == want:
            if len(ctx.samples) < 3 and fam == "program" and rng.random() < 0.002:
                ctx.sample({"program": src[:1500], "stdout": out[:200], "result": val})
            continue
        wit = {"family": fam, "program": src, "engine": {"stdout": out, "class": cls, "value": val, "reason": reason, "ticks": ticks},
               "model": {"stdout": mout, "class": mcls, "value": mval, "ticks": mticks}}
        explained = None
        for d in DEVIATIONS:
            m2 = observe_model(prog, (d,))
            if m2 is not None and (m2[0], m2[1], m2[2] if m2[1] in ("ok", "boxed") else "", m2[3]) == got:
                explained = d
                break
        if explained:
            ctx.violation("model-divergence:explained-by:%s" % explained, wit)
        else:
            what = "stdout" if out != mout else ("class" if cls != mcls else ("value" if got[2] != want[2] else "callback-trace"))
            ctx.violation("model-divergence:unexplained:%s:%s" % (fam, what), wit)
    if not ctx.samples:
        ctx.sample({"program": progs[0][2][:1500]})
    ctx.sample({"precedence-expression": progs[-1][2]})
    ctx.rule = ("family 'program': chailang programs over the whole modelled core (int/bool/string expressions, block scoping and shadowing, copies vs "
                "references/parameters/captures, if/else-if/else, while/for/ranged-for with break/continue, switch with fall-through, functions with recursion, "
                "typed parameters, guards, early return and parameter mutation, lambdas with captures, script classes, vectors, try/catch/finally/throw); "
                "family 'precedence': int/bool expressions printed with minimal parentheses; non-trivial = programs of >= 6 lines and every precedence "
                "expression; distinct by source")
    ctx.assumptions += ["the reference interpreter is my reading of cheatsheet.md / the grammar notes; constructs the documentation does not pin down are not generated",
                        "integer values stay inside int by construction; arithmetic wraps like int32 in the model"]
