"""C03 - core language semantics match the documented (C++-like) model.
Reference-model oracle: programs are generated as ASTs, printed to ChaiScript text and run on the real engine, and evaluated directly on
the AST by an independent reference interpreter (lib/chailang/interp.py; no second parser). Printed output, final value + type and error
class must agree. A divergence is attributed to a recorded finding only if re-running the *model* with exactly that finding's deviation
switch reproduces the engine's complete observable behaviour; otherwise it is a violation with the program as witness.
A second family prints integer/boolean expressions with minimal parentheses, so that the engine's precedence/associativity table is
compared with the AST's structure."""
import random

import gen
import interp
import printer
import vlib

LEVEL = "exploration"

PROFILE = {"w_try": 3, "w_switch": 5, "top_min": 5, "top_max": 16, "unguarded_div": 0.04, "size": 420}
DEVIATIONS = ["shallow_container_copy"]


def prec_expr(rng, depth, typ):
    if typ == "int":
        if depth <= 0 or rng.random() < 0.25:
            return ("int", rng.randrange(0, 20))
        k = rng.random()
        if k < 0.75:
            op = rng.choice(["+", "-", "*", "/", "%", "&", "|", "^", "<<", ">>", "+", "-", "*"])
            a = prec_expr(rng, depth - 1, "int")
            b = prec_expr(rng, depth - 1, "int")
            if op in ("/", "%"):
                b = ("int", rng.randrange(1, 9))
            if op in ("<<", ">>"):
                a = ("bin", "&", a, ("int", 15))
                b = ("int", rng.randrange(0, 4))
            return ("bin", op, a, b)
        if k < 0.85:
            return ("un", "-", prec_expr(rng, depth - 1, "int"))
        return ("tern", prec_expr(rng, depth - 1, "bool"), prec_expr(rng, depth - 1, "int"), prec_expr(rng, depth - 1, "int"))
    if depth <= 0 or rng.random() < 0.15:
        return ("bool", rng.random() < 0.5)
    k = rng.random()
    if k < 0.45:
        return ("bin", rng.choice(["<", "<=", ">", ">=", "==", "!="]), prec_expr(rng, depth - 1, "int"), prec_expr(rng, depth - 1, "int"))
    if k < 0.85:
        return ("bin", rng.choice(["&&", "||"]), prec_expr(rng, depth - 1, "bool"), prec_expr(rng, depth - 1, "bool"))
    return ("un", "!", prec_expr(rng, depth - 1, "bool"))


def temp_args(rng, typ):
    """argument expressions of one type: temporaries of every provenance, and named values"""
    if typ == "str":
        return rng.choice([("bin", "+", ("str", " "), ("str", "a")), ("tostr", ("int", rng.randrange(0, 99))), ("call", "mk_s", []), ("call", "mk_s2", []),
                           ("tern", ("bool", True), ("bin", "+", ("str", "t"), ("str", "u")), ("str", "w")), ("call", "idt", [("bin", "+", ("str", "i"), ("str", "d"))]),
                           ("var", "gs"), ("str", "lit"), ("call", "idt", [("var", "gs")]), ("interp", [("str", "n"), ("int", 4)])])
    if typ == "int":
        return rng.choice([("bin", "+", ("int", 1), ("int", rng.randrange(0, 9))), ("call", "mk_i", []), ("size", ("str", "abc")), ("un", "-", ("int", 4)),
                           ("call", "idt", [("bin", "*", ("int", 3), ("int", 3))]), ("var", "gi"), ("int", 7), ("call", "idt", [("var", "gi")])])
    if typ == "bool":
        return rng.choice([("bin", "<", ("int", 1), ("int", 2)), ("un", "!", ("bool", True)), ("var", "gb"), ("bool", True), ("call", "idt", [("bin", "==", ("int", 1), ("int", 1))])])
    return rng.choice([("vec", [("int", 1), ("int", 2)]), ("call", "mk_v", []), ("var", "gv"), ("call", "idt", [("vec", [("int", 5)])]), ("call", "idt", [("var", "gv")])])


def temp_program(rng):
    """What a callee does to a copy of its parameter must not reach the parameter - whatever the argument was (a temporary of any
    provenance or a named value) and wherever the copy is declared."""
    prog = [("def", "mk_s", [], None, [("return", ("bin", "+", ("str", "m"), ("str", "k")))]),
            ("def", "mk_s2", [], None, [("decl", "loc", ("str", "local")), ("return", ("var", "loc"))]),
            ("def", "mk_i", [], None, [("return", ("bin", "+", ("int", 20), ("int", 2)))]),
            ("def", "mk_v", [], None, [("return", ("vec", [("int", 3), ("int", 4)]))]),
            ("def", "idt", [("q", None)], None, [("return", ("var", "q"))]),
            ("decl", "gs", ("str", "named")), ("decl", "gi", ("int", 40)), ("decl", "gb", ("bool", False)), ("decl", "gv", ("vec", [("int", 8), ("int", 9)]))]
    nf = rng.randrange(1, 4)
    sigs = []
    for fi in range(nf):
        typ = rng.choice(["str", "str", "int", "bool", "vec"])
        init = rng.choice([("var", "p"), ("var", "p"), ("tern", ("bin", "<", ("int", 1), ("int", 2)), ("var", "p"), ("var", "p")),
                           ("tern", ("bool", False), ("var", "p"), ("var", "p")), ("call", "idt", [("var", "p")])])
        kw = rng.choice(["decl", "auto"])
        mut = {"str": [("assign", ("var", "v"), "=", ("str", "xyz")), ("assign", ("var", "v"), "+=", ("str", "q"))],
               "int": [("assign", ("var", "v"), "=", ("int", 99)), ("assign", ("var", "v"), "+=", ("int", 5)), ("incr", "v", "++"), ("assign", ("var", "v"), "*=", ("int", 2))],
               "bool": [("assign", ("var", "v"), "=", ("un", "!", ("var", "v")))],
               "vec": [("assign", ("var", "v"), "=", ("vec", [("int", 9)])), ("assign", ("var", "v"), "=", ("vec", []))]}[typ]
        if rng.random() < 0.3:
            # the copy is made by a container: push_back(p) / [p] must copy p as well, whatever p was bound to
            how = rng.choice(["push", "push_fn", "literal", "push_capture"])
            first = {"push": [("decl", "c", ("vec", [])), ("expr", ("mcall", ("var", "c"), "push_back", [("var", "p")]))],
                     "push_capture": [("decl", "cl", ("lambda", ["p"], [], [("return", ("var", "p"))])), ("decl", "c", ("vec", [])),
                                      ("expr", ("mcall", ("var", "c"), "push_back", [("call", "cl", [])]))],
                     "push_fn": [("decl", "c", ("vec", [])), ("expr", ("mcall", ("var", "c"), "push_back", [("call", "idt", [("var", "p")])]))],
                     "literal": [("decl", "c", ("vec", [("var", "p")]))]}[how]
            elem = ("index", ("var", "c"), ("int", 0))
            emut = {"str": [("assign", elem, "=", ("str", "xyz")), ("assign", elem, "+=", ("str", "q"))],
                    "int": [("assign", elem, "=", ("int", 99)), ("assign", elem, "+=", ("int", 5)), ("assign", elem, "*=", ("int", 2))],
                    "bool": [("assign", elem, "=", ("bool", True)), ("assign", elem, "=", ("bool", False))],
                    "vec": [("assign", elem, "=", ("vec", [("int", 9)])), ("assign", elem, "=", ("vec", []))]}[typ]
            inner = first + [rng.choice(emut), ("print", ("var", "c"))]
        else:
            inner = [(kw, "v", init), rng.choice(mut)]
            if rng.random() < 0.4:
                inner.append(rng.choice(mut))
            inner.append(("print", ("var", "v")))
        shape = rng.randrange(5)
        if shape == 0:
            body = inner
        elif shape == 1:
            body = [("block", inner)]
        elif shape == 2:
            body = [("if", [(("bin", "<", ("int", 1), ("int", 2)), inner)], None)]
        elif shape == 3:
            body = [("rfor", "x", ("vec", [("int", 1), ("int", 2)]), [("block", inner)])]
        else:
            body = [("try", inner, "e", [("print", ("str", "caught"))], None)]
        obs = ("size", ("var", "p")) if typ in ("str", "vec") and rng.random() < 0.5 else ("var", "p")
        body = body + [("print", ("var", "p")), ("return", obs)]
        ptype = typ if rng.random() < 0.3 else None
        name = "f%d" % fi
        if rng.random() < 0.3:
            prog.append(("decl", name, ("lambda", [], ["p"], body)))
        else:
            prog.append(("def", name, [("p", ptype)], None, body))
        sigs.append((name, typ))
    for _ in range(rng.randrange(3, 7)):
        name, typ = rng.choice(sigs)
        call = ("call", name, [temp_args(rng, typ)])
        prog.append(rng.choice([("print", call), ("decl", "r%d" % len(prog), call), ("expr", call)]))
    prog += [("print", ("var", "gs")), ("print", ("var", "gi")), ("print", ("var", "gb")), ("print", ("var", "gv"))]
    return prog


MAP_KEYS = ["a", "b", "k", "zz", "", "A"]


def map_program(rng):
    """Maps (string -> int): literals, insertion / overwrite / compound assignment through [], count, size, empty, erase, clear, iteration in key
    order with writes through the element, to_string, copies vs references vs parameters. Reads of a key are guarded by count(): reading a
    missing key default-inserts an undefined value, which the documentation does not describe."""
    V = lambda n: ("var", n)
    S = lambda x: ("str", x)
    I = lambda x: ("int", x)
    prog = [
        ("def", "bump", [("m", None), ("key", None)], None,
         [("if", [(("bin", ">", ("int_of", ("mcall", V("m"), "count", [V("key")])), I(0)), [("assign", ("index", V("m"), V("key")), "+=", I(1))])],
           [("assign", ("index", V("m"), V("key")), "=", I(1))])]),
        ("def", "total", [("m", None)], None,
         [("decl", "t", I(0)), ("rfor", "kv", V("m"), [("assign", V("t"), "+=", ("attr", V("kv"), "second"))]), ("return", V("t"))]),
        ("def", "grow_copy", [("m", None)], None,
         [("decl", "c", V("m")), ("assign", ("index", V("c"), S("fresh-key")), "=", I(9)), ("return", ("size", V("c")))]),
        ("def", "mk", [("n", None)], None, [("return", ("map", [("a", V("n")), ("b", ("bin", "+", V("n"), I(1)))]))]),
    ]
    names = []

    def key():
        return rng.choice(MAP_KEYS)

    def small():
        return I(rng.randrange(-5, 60))

    def literal():
        ks = rng.sample(MAP_KEYS, rng.randrange(0, 4))
        return ("map", [(k, small()) for k in ks])

    def new_map():
        n = "m%d" % len(names)
        how = rng.random()
        if names and how < 0.25:
            st = ("decl", n, V(rng.choice(names)))           # copy
        elif names and how < 0.4:
            st = ("ref", n, rng.choice(names))               # alias
        elif how < 0.55:
            st = ("decl", n, ("call", "mk", [small()]))       # returned temporary
        else:
            st = (rng.choice(["decl", "auto"]), n, literal())
        names.append(n)
        return [st]

    def op(depth):
        if not names or rng.random() < 0.12:
            return new_map()
        m = V(rng.choice(names))
        k = key()
        c = rng.random()
        guard = lambda body: ("if", [(("bin", ">", ("int_of", ("mcall", m, "count", [S(k)])), I(0)), body)], None)
        if c < 0.18:
            return [("assign", ("index", m, S(k)), "=", small())]
        if c < 0.30:
            return [guard([("assign", ("index", m, S(k)), rng.choice(["+=", "-=", "*="]), I(rng.randrange(1, 4)))])]
        if c < 0.40:
            return [guard([("print", ("index", m, S(k)))])]
        if c < 0.46:
            x = "x%d" % rng.randrange(10 ** 6)
            return [guard([("decl", x, ("index", m, S(k))), ("assign", V(x), "+=", I(100)), ("print", V(x)), ("print", ("index", m, S(k)))])]
        if c < 0.54:
            return [("print", rng.choice([("int_of", ("mcall", m, "count", [S(k)])), ("size", m), ("mcall", m, "empty", [])]))]
        if c < 0.60:
            return [("print", ("int_of", ("mcall", m, "erase", [S(k)])))]
        if c < 0.63:
            return [("expr", ("mcall", m, "clear", []))]
        if c < 0.72:
            return [("print", rng.choice([m, ("tostr", m)]))]
        if c < 0.82:
            body = [("print", ("attr", V("kv"), "first"))]
            if rng.random() < 0.6:
                body.append(("assign", ("attr", V("kv"), "second"), rng.choice(["+=", "*=", "="]), I(rng.randrange(1, 4))))
            body.append(("print", ("attr", V("kv"), "second")))
            if rng.random() < 0.2:
                body.insert(0, ("if", [(("bin", "==", ("attr", V("kv"), "first"), S(key())), [(rng.choice(["continue", "break"]),)])], None))
            return [("rfor", "kv", m, body)]
        if c < 0.90:
            return [rng.choice([("expr", ("call", "bump", [m, S(k)])), ("print", ("call", "total", [m])), ("print", ("call", "grow_copy", [m])),
                                ("print", ("call", "total", [("call", "mk", [small()])]))])]
        if depth > 0:
            inner = []
            for _ in range(rng.randrange(1, 4)):
                inner += op(depth - 1)
            inner = [st for st in inner if st[0] not in ("decl", "auto", "ref") or not st[1].startswith("m")]     # maps are declared at top level only
            w = rng.random()
            if w < 0.4:
                return [("if", [(("bin", "<", ("size", m), I(rng.randrange(0, 4))), inner)], [("print", S("else"))])]
            if w < 0.7:
                return [("for", "i%d" % rng.randrange(10 ** 6), 0, rng.randrange(1, 4), "<", "++i", inner)]
            return [("block", inner)]
        return [("print", ("size", m))]

    prog += new_map()
    for _ in range(rng.randrange(6, 22)):
        before = len(names)
        sts = op(2)
        prog += sts
    for n in names:
        prog.append(("print", V(n)))
    return prog


def observe_model(prog, deviations=()):
    it = interp.Interp(deviations)
    try:
        out, cls, val = it.run(prog)
    except RuntimeError as e:
        return None
    return out, cls, val, ",".join(str(t) for t in it.ticks)


def run(ctx, tier, seed, scale=1.0):
    rng = random.Random(seed)
    quick = tier == "quick"
    exe = vlib.build("asan", ["c02_diff"])["c02_diff"]
    n = int((4000 if quick else 400000) * scale)
    nprec = int((2500 if quick else 100000) * scale)
    progs = []
    for i in range(n):
        g = gen.Gen(rng, PROFILE)
        g.funcs["tick"] = ([gen.INT], gen.INT, 1, False, [False])
        prog = g.program()
        progs.append(("program", prog, printer.Printer().program(prog)))
    mp = printer.Printer(minimal_parens=True)
    for i in range(nprec):
        e = prec_expr(rng, rng.randrange(2, 5), rng.choice(["int", "int", "bool"]))
        prog = [("expr", e)]
        progs.append(("precedence", prog, mp.e(e) + "\n"))
    for i in range(int((600 if quick else 30000) * scale)):
        prog = temp_program(rng)
        progs.append(("temporaries", prog, printer.Printer().program(prog)))
    for i in range(int((700 if quick else 40000) * scale)):
        prog = map_program(rng)
        progs.append(("maps", prog, printer.Printer().program(prog)))
    cases = [["S", src] for _, _, src in progs]
    res, hf = vlib.run_cases(exe, cases, "c03", timeout_s=120, batch=32)
    ctx.harness_failures += hf
    vlib.judge_crashes(ctx, exe, cases, res, "c03", timeout_s=120, describe=lambda k: {"family": progs[k][0], "program": progs[k][2]})
    for (fam, prog, src), r in zip(progs, res):
        ctx.evaluations += 1
        if r.status != "ok":
            continue
        cls, val, reason, out, effects = r.fields[:5]
        ticks = effects.split("|")[0].rstrip(",")
        m = observe_model(prog)
        ctx.count("family:" + fam)
        if m is None:
            ctx.inconc("model-step-limit", src)
            continue
        mout, mcls, mval, mticks = m
        ctx.count("outcome:" + mcls)
        if fam == "program":
            if src.count("\n") >= 6:
                ctx.nontriv(src)
        else:
            ctx.nontriv(src)
        got = (out, cls, val if cls in ("ok", "boxed") else "", ticks)
        want = (mout, mcls, mval if mcls in ("ok", "boxed") else "", mticks)
        if got == want:
            if len(ctx.samples) < 3 and fam == "program" and rng.random() < 0.002:
                ctx.sample({"program": src[:1500], "stdout": out[:200], "result": val})
            continue
        wit = {"family": fam, "program": src, "engine": {"stdout": out, "class": cls, "value": val, "reason": reason, "ticks": ticks},
               "model": {"stdout": mout, "class": mcls, "value": mval, "ticks": mticks}}
        explained = None
        for d in DEVIATIONS:
            m2 = observe_model(prog, (d,))
            if m2 is not None and (m2[0], m2[1], m2[2] if m2[1] in ("ok", "boxed") else "", m2[3]) == got:
                explained = d
                break
        if explained:
            ctx.violation("model-divergence:explained-by:%s" % explained, wit)
        else:
            what = "stdout" if out != mout else ("class" if cls != mcls else ("value" if got[2] != want[2] else "callback-trace"))
            ctx.violation("model-divergence:unexplained:%s:%s" % (fam, what), wit)
    if not ctx.samples:
        ctx.sample({"program": progs[0][2][:1500]})
    ctx.sample({"precedence-expression": progs[-1][2]})
    ctx.rule = ("family 'program': chailang programs over the whole modelled core (int/bool/string expressions, block scoping and shadowing, copies vs "
                "references/parameters/captures, if/else-if/else, while/for/ranged-for with break/continue, switch with fall-through, functions with recursion, "
                "typed parameters, guards, early return and parameter mutation, lambdas with captures, script classes, vectors, try/catch/finally/throw); "
                "family 'temporaries': a callee declares a copy of its parameter (plain, through ?:, through a function; in a block, if, ranged-for, try), "
                "mutates the copy, and parameter, argument and copy are observed - for arguments that are temporaries of every provenance and named values; "
                "family 'maps': string->int maps (literals, [] insertion / overwrite / compound assignment, count, size, empty, erase, clear, iteration in key order "
                "with writes through the element, to_string, copies vs references vs parameters, maps returned by functions); "
                "family 'precedence': int/bool expressions printed with minimal parentheses; non-trivial = programs of >= 6 lines and every precedence "
                "expression; distinct by source")
    ctx.assumptions += ["the reference interpreter is my reading of cheatsheet.md / the grammar notes; constructs the documentation does not pin down are not generated",
                        "integer values stay inside int by construction; arithmetic wraps like int32 in the model"]
