"""Shipped script corpus: unittests/*.chai, samples/*.chai and the 2.9k minimized fuzzer inputs."""
import glob
import io
import os
import tarfile

from vlib import REPO


def load(with_fuzzy=True):
    out = []
    for pat in ("unittests/*.chai", "samples/*.chai", "unittests/*.inc"):
        for p in sorted(glob.glob(os.path.join(REPO, pat))):
            with open(p, "rb") as fh:
                out.append((os.path.relpath(p, REPO), fh.read()))
    if with_fuzzy:
        tp = os.path.join(REPO, "unittests", "fuzzy_tests-2017-07-20.tar.bz2")
        if os.path.exists(tp):
            with tarfile.open(tp, "r:bz2") as tf:
                for m in tf.getmembers():
                    if m.isfile():
                        out.append(("fuzzy/" + os.path.basename(m.name), tf.extractfile(m).read()))
    return out
