"""C10 - exceptions are delivered, not lost or altered.
Generated nests of try / catch (typed or untyped, 0-3 clauses) / finally across frames (def, lambda, method, bind, for_each / map
callbacks, attribute-held functions) with values thrown by script (int, string, script class object, runtime_error object, C++ user type)
and C++ exceptions thrown by a registered function (std::runtime_error, std::out_of_range, std::logic_error, raw int, a non-std struct,
eval_error) plus eval_error from a failed dispatch and arithmetic_error. A reference model of the documented semantics predicts the exact
trace printed by try/catch/finally bodies and what leaves eval (C++ type and payload), with and without an exception_specification."""
import random

import vlib

LEVEL = "exploration"

# thrown kind -> (script statement, class of the thrown object or None if script clauses cannot see it, its base classes, outcome at the eval boundary)
KINDS = {
    "s-int": ("throw(%d)", "int", [], ("boxed", "int:%d")),
    "s-string": ('throw("s%d")', "string", [], ("boxed", "string:s%d")),
    "s-obj": ("throw(MyErr(%d))", "MyErr", [], ("boxed", None)),
    "s-rt": ('throw(runtime_error("rt%d"))', "runtime_error", ["exception"], ("boxed", "cpp:std::runtime_error")),
    "s-user": ("throw(User_Payload()) // %d", "User_Payload", [], ("boxed", "cpp:User_Payload")),
    "c-runtime": ('cpp_throw("runtime") // %d', "runtime_error", ["exception"], ("std::runtime_error", "cpp-runtime")),
    "c-range": ('cpp_throw("range") // %d', "out_of_range", ["logic_error", "exception"], ("std::out_of_range", "cpp-range")),
    "c-logic": ('cpp_throw("logic") // %d', "logic_error", ["exception"], ("std::logic_error", "cpp-logic")),
    "c-int": ('cpp_throw("int") // %d', None, [], ("int", "4242")),
    "c-custom": ('cpp_throw("custom") // %d', None, [], ("Custom_Exc", "9")),
    "c-evalerr": ('cpp_throw("evalerr") // %d', "eval_error", ["runtime_error", "exception"], ("eval_error", "cpp-evalerr")),
    "dispatch": ("no_such_function_%d(1)", "eval_error", ["runtime_error", "exception"], ("eval_error", None)),
    "arith": ("var q%d = 1 / zero()", "arithmetic_error", ["runtime_error", "exception"], ("arithmetic_error", None)),
}
BARE = "<bare>"        # the variable-less form: catch { ... }
CLAUSE_TYPES = [None, None, BARE, "int", "string", "MyErr", "runtime_error", "out_of_range", "exception", "eval_error", "User_Payload", "logic_error",
                "arithmetic_error"]
FRAMES = ["def", "lambda", "method", "bind", "for_each", "map", "attr"]


class Exc(Exception):
    def __init__(self, kind, n):
        self.kind, self.n = kind, n


class Builder:
    def __init__(self, rng):
        self.rng = rng
        self.n = 0
        self.defs = []       # hoisted definitions

    def fresh(self):
        self.n += 1
        return self.n

    def seq(self, depth, can_throw=True):
        rng = self.rng
        out = []
        for _ in range(rng.randrange(1, 4)):
            k = rng.random()
            if k < 0.35 or depth <= 0:
                out.append(("print", self.fresh()))
            elif k < 0.60:
                out.append(self.try_(depth - 1))
            elif k < 0.80:
                out.append(("call", rng.choice(FRAMES), self.fresh(), self.seq(depth - 1)))
            elif can_throw:
                out.append(("throw", rng.choice(list(KINDS)), self.fresh()))
                if rng.random() < 0.5:
                    out.append(("print", self.fresh()))      # must never run
                break
        if can_throw and rng.random() < 0.25 and (not out or out[-1][0] != "throw"):
            out.append(("throw", rng.choice(list(KINDS)), self.fresh()))
        return out

    def try_(self, depth):
        rng = self.rng
        body = self.seq(depth)
        if rng.random() < 0.8 and not any(s[0] == "throw" for s in body):
            body.append(("throw", rng.choice(list(KINDS)), self.fresh()))
        clauses = []
        for _ in range(rng.choice([0, 1, 1, 2, 3])):
            clauses.append((rng.choice(CLAUSE_TYPES), self.fresh(), self.seq(depth - 1, can_throw=rng.random() < 0.5)))
        fin = self.seq(0, can_throw=False) if rng.random() < 0.55 or not clauses else None
        if not clauses and fin is None:
            fin = [("print", self.fresh())]
        return ("try", body, clauses, fin)


def matches(ctype, kind):
    script, boxed, bases, _ = KINDS[kind]
    if boxed is None:
        return False
    return ctype is None or ctype == BARE or ctype == boxed or ctype in bases


def run_model(stmts, trace):
    for st in stmts:
        k = st[0]
        if k == "print":
            trace.append("p%d" % st[1])
        elif k == "throw":
            raise Exc(st[1], st[2])
        elif k == "call":
            run_model(st[3], trace)
        elif k == "try":
            _, body, clauses, fin = st
            try:
                try:
                    run_model(body, trace)
                except Exc as e:
                    for ctype, cid, cbody in clauses:
                        if matches(ctype, e.kind):
                            trace.append("c%d" % cid)
                            run_model(cbody, trace)
                            break
                    else:
                        raise
            finally:
                if fin is not None:
                    run_model(fin, trace)


def emit(b, stmts, ind):
    pad = "  " * ind
    out = ""
    for st in stmts:
        k = st[0]
        if k == "print":
            out += '%sprint("p%d")\n' % (pad, st[1])
        elif k == "throw":
            out += pad + KINDS[st[1]][0] % st[2] + "\n"
        elif k == "call":
            _, frame, n, body = st
            inner = emit(b, body, 1) if frame not in ("method", "attr") else None
            if frame == "def":
                b.defs.append("def f%d() {\n%s}\n" % (n, inner))
                out += "%sf%d()\n" % (pad, n)
            elif frame == "lambda":
                b.defs.append("global l%d = fun() {\n%s}\n" % (n, inner))
                out += "%sl%d()\n" % (pad, n)
            elif frame == "method":
                b.defs.append("class K%d {\n  def K%d() { }\n  def m() {\n%s  }\n}\n" % (n, n, emit(b, body, 2)))
                out += "%sK%d().m()\n" % (pad, n)
            elif frame == "bind":
                b.defs.append("def g%d(a) {\n%s}\n" % (n, inner))
                out += "%sbind(g%d, 1)()\n" % (pad, n)
            elif frame == "for_each":
                b.defs.append("def h%d(x) {\n%s}\n" % (n, inner))
                out += "%sfor_each([1], h%d)\n" % (pad, n)
            elif frame == "map":
                b.defs.append("def mp%d(x) {\n%s  x\n}\n" % (n, inner))
                out += "%smap([1], mp%d)\n" % (pad, n)
            else:
                b.defs.append("class A%d {\n  attr fn\n  def A%d() { this.fn = fun() {\n%s    }\n  }\n}\n" % (n, n, emit(b, body, 3)))
                out += "%sA%d().fn()\n" % (pad, n)
        elif k == "try":
            _, body, clauses, fin = st
            out += "%stry {\n%s%s}" % (pad, emit(b, body, ind + 1), pad)
            for ctype, cid, cbody in clauses:
                head = "catch" if ctype == BARE else "catch (%s)" % ((ctype + " e") if ctype else "e")
                out += " %s {\n%s  print(\"c%d\")\n%s%s}" % (head, pad, cid, emit(b, cbody, ind + 1), pad)
            if fin is not None:
                out += " finally {\n%s%s}" % (emit(b, fin, ind + 1), pad)
            out += "\n"
    return out


def build(rng):
    b = Builder(rng)
    prog = b.seq(rng.randrange(1, 4))
    if not any(s[0] in ("try", "call", "throw") for s in prog):
        prog.append(b.try_(2))
    body = emit(b, prog, 0)
    src = "class MyErr { attr code; def MyErr(c) { this.code = c } }\n" + "".join(b.defs) + body
    trace = []
    try:
        run_model(prog, trace)
        outcome = ("returned", None, None)
    except Exc as e:
        outcome = (KINDS[e.kind][3][0], KINDS[e.kind][3][1], e)
    return src, trace, outcome, prog


def shape(prog):
    """coarse structural description used in violation keys"""
    feats = set()

    def walk(stmts, in_catch=False):
        for st in stmts:
            if st[0] == "try":
                _, body, clauses, fin = st
                if not clauses:
                    feats.add("try-finally-without-catch")
                if any(c[0] == BARE for c in clauses):
                    feats.add("bare-catch")
                if clauses and all(c[0] not in (None, BARE) for c in clauses):
                    feats.add("only-typed-clauses")
                if fin is not None:
                    feats.add("finally")
                walk(body)
                for c in clauses:
                    if any(s[0] == "throw" for s in c[2]):
                        feats.add("throw-in-catch")
                    walk(c[2], True)
                if fin:
                    walk(fin)
            elif st[0] == "call":
                walk(st[3])
    walk(prog)
    return feats


def run(ctx, tier, seed, scale=1.0):
    rng = random.Random(seed)
    quick = tier == "quick"
    exe = vlib.build("asan", ["c10_exc"])["c10_exc"]
    n = int((2500 if quick else 250000) * scale)
    progs = []
    for _ in range(n):
        src, trace, outcome, prog = build(rng)
        progs.append((src, trace, outcome, prog, rng.choice(["plain", "plain", "spec"])))
    cases = [["X", p[4], p[0]] for p in progs]
    res, hf = vlib.run_cases(exe, cases, "c10", timeout_s=120, batch=16)
    ctx.harness_failures += hf
    vlib.judge_crashes(ctx, exe, cases, res, "c10", timeout_s=120, describe=lambda k: {"program": progs[k][0]})
    for (src, trace, outcome, prog, mode), r in zip(progs, res):
        ctx.evaluations += 1
        if r.status != "ok":
            continue
        cls, detail, out = r.fields[:3]
        got_trace = [x for x in out.split("\n") if x]
        ctx.count("mode:" + mode)
        want_cls, want_detail, exc = outcome
        if exc is not None:
            ctx.count("thrown-kind-leaving-eval:" + exc.kind)
            ctx.nontriv(src)
            if mode == "spec":
                # exception_specification<int, std::string, User_Payload, const std::exception &> unboxes script-thrown values
                if exc.kind == "s-int":
                    want_cls, want_detail = "int", str(exc.n)
                elif exc.kind == "s-string":
                    want_cls, want_detail = "std::string", "s%d" % exc.n
                elif exc.kind == "s-user":
                    want_cls, want_detail = "User_Payload", "7"
                elif exc.kind == "s-rt":
                    # the specification names 'const std::exception &': that is the type the value is handed over as (a sliced copy)
                    want_cls, want_detail = "std::exception:std::exception", None
            if want_detail and "%d" in want_detail:
                want_detail = want_detail % exc.n
        elif any(t.startswith("c") for t in trace):
            ctx.nontriv(src)
        feats = sorted(shape(prog))
        wit = {"program": src, "mode": mode, "expected_trace": trace, "got_trace": got_trace, "expected_outcome": [want_cls, want_detail],
               "got_outcome": [cls, detail]}
        if got_trace != trace:
            # classify the first divergence
            i = 0
            while i < len(trace) and i < len(got_trace) and trace[i] == got_trace[i]:
                i += 1
            miss = trace[i] if i < len(trace) else None
            extra = got_trace[i] if i < len(got_trace) else None
            if want_cls != "returned" and cls == "returned":
                kind = "exception-lost"
            elif miss and miss.startswith("c"):
                kind = "matching-clause-not-run"
            elif extra and extra.startswith("c"):
                kind = "wrong-clause-run"
            elif miss and extra is None:
                kind = "trace-cut-short(finally-or-continuation-skipped)"
            elif extra and miss is None:
                kind = "code-ran-that-should-not"
            else:
                kind = "trace-differs"
            ctx.violation("%s:%s" % (kind, "+".join(feats) or "plain"), wit)
        elif cls != want_cls:
            ctx.violation("wrong-type-at-eval-boundary:%s-instead-of-%s" % (cls, want_cls), wit)
        elif want_detail is not None and detail != want_detail:
            ctx.violation("payload-altered:%s" % want_cls, wit)
        if len(ctx.samples) < 3 and rng.random() < 0.002:
            ctx.sample({"program": src[:1500], "expected_trace": trace, "expected_outcome": [want_cls, want_detail]})
    if not ctx.samples:
        ctx.sample({"program": progs[0][0][:1500], "expected_trace": progs[0][1]})
    ctx.rule = ("one case = a generated nest (depth <= 3) of try / 0-3 catch clauses (untyped, variable-less `catch { }`, typed: int, string, script class, runtime_error, out_of_range, "
                "logic_error, exception, eval_error, C++ user type; or untyped) / finally, spread over frames (def, lambda, method, bind, for_each, map, "
                "attribute-held function), throwing one of 13 kinds at generated positions (try body, catch body, nested function); the printed trace and "
                "what leaves eval are compared with a reference model; non-trivial iff an exception was thrown and crossed a clause or the eval boundary")
    ctx.assumptions += ["C++ exceptions that are neither std::exception nor Boxed_Value (raw int, custom struct) cannot be bound by a script catch clause: "
                        "modelled as passing through (finally blocks run) and leaving eval with their original type",
                        "catch-clause guards (catch(e) : cond) are not generated", "finally bodies do not throw"]
