"""C12 - built-in containers/strings are bounds-safe and match their std:: models.
Seeded operation sequences over Vector, List, Map, string, Pair and range views, executed statement by statement on a fresh
ASan engine; after every step the result (value or 'must throw') and a dump of the container are compared with a python
list/dict/str model. Range views are used only while their container is structurally unmodified (property carve-out); the
modify-while-viewing witnesses are replayed separately as known findings."""
import random

import vlib

LEVEL = "exploration"
US = "\x1f"
I32MIN, I32MAX = -2**31, 2**31 - 1


def r_int(v):
    return "int:%d" % v


def r_str(s):
    return "string:" + vlib.esc(s.encode("latin-1"))


def r_char(c):
    o = ord(c)
    return "char:%d" % (o - 256 if o >= 128 else o)


def r_val(v):
    if v is None:
        return "undef"
    if isinstance(v, bool):
        return "bool:" + ("true" if v else "false")
    if isinstance(v, int):
        return r_int(v)
    return r_str(v)


def lit(v):
    if isinstance(v, int):
        return str(v) if v >= 0 else "(%d)" % v
    return '"' + v + '"'


def r_size(n):
    return "unsigned long:%d" % (n % 2**64)


class Step:
    __slots__ = ("src", "kind", "want")

    def __init__(self, src, kind, want=None):
        self.src, self.kind, self.want = src, kind, want   # kind: val | throw | any


def idx_choices(rng, n):
    return rng.choice([I32MIN, -1, 0, 0, 1, n - 1, n - 1, n, n + 1, I32MAX, rng.randrange(0, max(1, n)), rng.randrange(0, max(1, n))])


def same_type(rng, old):
    if isinstance(old, int):
        return rng.choice([0, 1, -5, 7, 42, 1000, -3])
    return rng.choice(["a", "bc", "", "zz"])


def rand_elem(rng):
    return rng.choice([0, 1, -5, 7, 42, 1000, "a", "bc", ""]) if rng.random() < 0.9 else rng.randrange(-100, 100)


# ------------------------------------------------------------------ sequence models
def const_steps(rng):
    """the const overloads: const globals provided by the harness and literals, hostile indices, const range views"""
    tag = rng.randrange(10**6)
    name, items, rend = rng.choice([("cvec3", [10, 20, 30], r_int), ("cvec0", [], r_int), ("cstr5", list("const"), r_char), ("cstr0", [], r_char),
                                    ('"abc"', list("abc"), r_char)])
    n = len(items)
    out = []
    for _ in range(rng.randrange(1, 4)):
        i = idx_choices(rng, n)
        if name.startswith('"'):
            # a literal lives in the parse tree of this very evaluation: consume the element inside the expression instead of handing a reference
            # to it back to C++ (that hand-over is the recorded C11 finding, not a bounds matter)
            out.append(Step("(%s[%s] + 0)" % (name, lit(i)), "val", r_int(ord(items[i]))) if 0 <= i < n else Step("(%s[%s] + 0)" % (name, lit(i)), "throw"))
        else:
            out.append(Step("%s[%s]" % (name, lit(i)), "val", rend(items[i])) if 0 <= i < n else Step("%s[%s]" % (name, lit(i)), "throw"))
    if name.startswith("cvec"):
        for fn in ("front", "back"):
            out.append(Step("%s.%s()" % (name, fn), "val", rend(items[0 if fn == "front" else -1])) if n else Step("%s.%s()" % (name, fn), "throw"))
    if not name.startswith('"'):
        out.append(Step("var cr%d = range(%s); cr%d.empty()" % (tag, name, tag), "val", r_val(n == 0)))
        lo, hi = 0, n
        for _ in range(rng.randrange(1, 6)):
            ro = rng.choice(["front", "back", "pop_front", "pop_back"])
            empty = lo >= hi
            if ro in ("front", "back"):
                out.append(Step("cr%d.%s()" % (tag, ro), "throw") if empty else Step("cr%d.%s()" % (tag, ro), "val", rend(items[lo if ro == "front" else hi - 1])))
            elif empty:
                out.append(Step("cr%d.%s()" % (tag, ro), "throw"))
            else:
                lo, hi = (lo + 1, hi) if ro == "pop_front" else (lo, hi - 1)
                out.append(Step("cr%d.%s()" % (tag, ro), "any"))
    return out


class SeqModel:
    """Vector / List of cells; a cell is [value, frozen]."""

    def __init__(self, kind, rng):
        self.kind = kind   # Vector | List
        self.rng = rng
        self.c = []

    def dump(self):
        inner = ", ".join(r_val(x[0]) for x in self.c)
        return ("[%s]" if self.kind == "Vector" else "list[%s]") % inner

    def ops(self):
        o = ["push_back", "push_back", "pop_back", "front", "back", "size", "empty", "insert_at", "erase_at", "resize", "resize_val", "range",
             "clear", "pop_back", "assign_copy", "eq"]
        if self.kind == "Vector":
            o += ["get", "get", "set", "reserve", "big_resize", "get", "set"]
        else:
            o += ["push_front", "pop_front", "pop_front"]
        return o

    def step(self):
        rng, c = self.rng, self.c
        n = len(c)
        op = rng.choice(self.ops())
        if op == "push_back":
            x = rand_elem(rng)
            c.append([x, False])
            return [Step("v.push_back(%s)" % lit(x), "any")]
        if op == "push_front":
            x = rand_elem(rng)
            c.insert(0, [x, False])
            return [Step("v.push_front(%s)" % lit(x), "any")]
        if op == "pop_back":
            if not c:
                return [Step("v.pop_back()", "throw")]
            c.pop()
            return [Step("v.pop_back()", "any")]
        if op == "pop_front":
            if not c:
                return [Step("v.pop_front()", "throw")]
            c.pop(0)
            return [Step("v.pop_front()", "any")]
        if op in ("front", "back"):
            if not c:
                return [Step("v.%s()" % op, "throw")]
            return [Step("v.%s()" % op, "val", r_val((c[0] if op == "front" else c[-1])[0]))]
        if op == "size":
            return [Step("v.size()", "val", r_size(n))]
        if op == "empty":
            return [Step("v.empty()", "val", r_val(n == 0))]
        if op == "clear":
            del c[:]
            return [Step("v.clear()", "any")]
        if op == "get":
            i = idx_choices(rng, n)
            if 0 <= i < n:
                return [Step("v[%s]" % lit(i), "val", r_val(c[i][0]))]
            return [Step("v[%s]" % lit(i), "throw")]
        if op == "set":
            i = idx_choices(rng, n)
            x = rand_elem(rng)
            if 0 <= i < n:
                if c[i][1] or c[i][0] is None:
                    return [Step("v[%s]" % lit(i), "val", r_val(c[i][0]))]
                x = same_type(rng, c[i][0])   # assignment never changes an element's type
                c[i][0] = x
                return [Step("v[%s] = %s" % (lit(i), lit(x)), "any")]
            return [Step("v[%s] = %s" % (lit(i), lit(x)), "throw")]
        if op == "insert_at":
            i = idx_choices(rng, n)
            x = rand_elem(rng)
            if 0 <= i <= n:
                c.insert(i, [x, False])
                return [Step("v.insert_at(%s, %s)" % (lit(i), lit(x)), "any")]
            return [Step("v.insert_at(%s, %s)" % (lit(i), lit(x)), "throw")]
        if op == "erase_at":
            i = idx_choices(rng, n)
            if 0 <= i < n:
                c.pop(i)
                return [Step("v.erase_at(%s)" % lit(i), "any")]
            return [Step("v.erase_at(%s)" % lit(i), "throw")]
        if op == "resize":
            m = rng.randrange(0, 9)
            if m <= n:
                del c[m:]
            else:
                c.extend([None, True] for _ in range(m - n))
            return [Step("v.resize(%d)" % m, "any")]
        if op == "resize_val":
            m = rng.randrange(0, 9)
            x = rand_elem(rng)
            if m <= n:
                del c[m:]
            else:
                c.extend([x, True] for _ in range(m - n))
            return [Step("v.resize(%d, %s)" % (m, lit(x)), "any")]
        if op == "big_resize":
            # larger than max_size(): must be refused by the container, never attempted
            return [Step(rng.choice(["v.resize(-1)", "v.reserve(-1)", "v.resize(4611686018427387904)", "v.reserve(4611686018427387904)"]), "throw")]
        if op == "reserve":
            return [Step("v.reserve(%d)" % rng.randrange(0, 64), "any"), Step("v.capacity() >= v.size()", "val", r_val(True))]
        if op == "assign_copy":
            # copy, mutate the copy structurally, original keeps its shape
            return [Step("var w%d = v; w%d.push_back(1); w%d.size()" % ((self.tag(),) * 3), "val", r_size(n + 1)),
                    Step("v.size()", "val", r_size(n))]
        if op == "eq":
            if any(x[0] is None for x in c):
                return [Step("v.size()", "val", r_size(n))]   # undefined elements have no equality
            return [Step("v == v", "val", r_val(True))]
        if op == "range":
            # a view used while v is not modified structurally
            t = self.tag()
            steps = [Step("var r%d = range(v); r%d.empty()" % (t, t), "val", r_val(n == 0))]
            lo, hi = 0, n
            for _ in range(rng.randrange(1, 7)):
                ro = rng.choice(["front", "back", "pop_front", "pop_back", "empty"])
                empty = lo >= hi
                if ro == "empty":
                    steps.append(Step("r%d.empty()" % t, "val", r_val(empty)))
                elif ro in ("front", "back"):
                    if empty:
                        steps.append(Step("r%d.%s()" % (t, ro), "throw"))
                    else:
                        steps.append(Step("r%d.%s()" % (t, ro), "val", r_val(c[lo if ro == "front" else hi - 1][0])))
                else:
                    if empty:
                        steps.append(Step("r%d.%s()" % (t, ro), "throw"))
                    else:
                        if ro == "pop_front":
                            lo += 1
                        else:
                            hi -= 1
                        steps.append(Step("r%d.%s()" % (t, ro), "any"))
            return steps
        raise AssertionError(op)

    _t = 0

    def tag(self):
        SeqModel._t += 1
        return SeqModel._t


class StrModel:
    def __init__(self, rng):
        self.rng = rng
        self.s = ""

    def dump(self):
        return r_str(self.s)

    def step(self):
        rng = self.rng
        s = self.s
        n = len(s)
        op = rng.choice(["append", "append", "appendc", "push_back", "get", "get", "set", "substr", "substr", "find", "find", "rfind", "ffo", "flo",
                         "ffno", "flno", "size", "empty", "clear", "insert_at", "erase_at", "cmp", "plus", "range"])
        word = rng.choice(["a", "b", "ab", "ba", "abc", "", "xyz", "aa"])
        ch = rng.choice("abxyz")

        def pos_choice():
            return rng.choice([-1, 0, 0, 1, n - 1, n, n + 1, 2**31 - 1, -2**31, rng.randrange(0, max(1, n))])

        def u64(p):
            return p % 2**64
        if op == "append":
            self.s += word
            return [Step('s += "%s"' % word, "any")]
        if op == "appendc":
            self.s += ch
            return [Step("s += '%s'" % ch, "any")]
        if op == "push_back":
            self.s += ch
            return [Step("s.push_back('%s')" % ch, "any")]
        if op == "get":
            i = idx_choices(rng, n)
            if 0 <= i < n:
                return [Step("s[%s]" % lit(i), "val", r_char(s[i]))]
            return [Step("s[%s]" % lit(i), "throw")]
        if op == "set":
            i = idx_choices(rng, n)
            if 0 <= i < n:
                self.s = s[:i] + ch + s[i + 1:]
                return [Step("s[%s] = '%s'" % (lit(i), ch), "any")]
            return [Step("s[%s] = '%s'" % (lit(i), ch), "throw")]
        if op == "substr":
            p, l = pos_choice(), pos_choice()
            pu, lu = u64(p), u64(l)
            if pu > n:
                return [Step("s.substr(%s, %s)" % (lit(p), lit(l)), "throw")]
            return [Step("s.substr(%s, %s)" % (lit(p), lit(l)), "val", r_str(s[pu:pu + lu]))]
        if op in ("find", "rfind", "ffo", "flo", "ffno", "flno"):
            p = pos_choice()
            pu = u64(p)
            name = {"find": "find", "rfind": "rfind", "ffo": "find_first_of", "flo": "find_last_of", "ffno": "find_first_not_of",
                    "flno": "find_last_not_of"}[op]
            res = str_find(s, word, pu, op)
            return [Step('s.%s("%s", %s)' % (name, word, lit(p)), "val", r_size(res))]
        if op == "size":
            return [Step("s.size()", "val", r_size(n))]
        if op == "empty":
            return [Step("s.empty()", "val", r_val(n == 0))]
        if op == "clear":
            self.s = ""
            return [Step("s.clear()", "any")]
        if op == "insert_at":
            i = idx_choices(rng, n)
            if 0 <= i <= n:
                self.s = s[:i] + ch + s[i:]
                return [Step("s.insert_at(%s, '%s')" % (lit(i), ch), "any")]
            return [Step("s.insert_at(%s, '%s')" % (lit(i), ch), "throw")]
        if op == "erase_at":
            i = idx_choices(rng, n)
            if 0 <= i < n:
                self.s = s[:i] + s[i + 1:]
                return [Step("s.erase_at(%s)" % lit(i), "any")]
            return [Step("s.erase_at(%s)" % lit(i), "throw")]
        if op == "cmp":
            o = rng.choice(["<", "==", ">=", "!="])
            res = {"<": s < word, "==": s == word, ">=": s >= word, "!=": s != word}[o]
            return [Step('s %s "%s"' % (o, word), "val", r_val(res))]
        if op == "plus":
            return [Step('s + "%s"' % word, "val", r_str(s + word))]
        if op == "range":
            SeqModel._t += 1
            t = SeqModel._t
            steps = [Step("var r%d = range(s); r%d.empty()" % (t, t), "val", r_val(n == 0))]
            lo, hi = 0, n
            for _ in range(rng.randrange(1, 6)):
                ro = rng.choice(["front", "back", "pop_front", "pop_back", "empty"])
                empty = lo >= hi
                if ro == "empty":
                    steps.append(Step("r%d.empty()" % t, "val", r_val(empty)))
                elif ro in ("front", "back"):
                    steps.append(Step("r%d.%s()" % (t, ro), "throw") if empty else
                                 Step("r%d.%s()" % (t, ro), "val", r_char(s[lo if ro == "front" else hi - 1])))
                elif empty:
                    steps.append(Step("r%d.%s()" % (t, ro), "throw"))
                else:
                    if ro == "pop_front":
                        lo += 1
                    else:
                        hi -= 1
                    steps.append(Step("r%d.%s()" % (t, ro), "any"))
            return steps
        raise AssertionError(op)


NPOS = 2**64 - 1


def str_find(s, w, pos, op):
    n = len(s)
    if op == "find":
        if pos > n:
            return NPOS
        r = s.find(w, pos)
        return NPOS if r < 0 else r
    if op == "rfind":
        if len(w) > n:
            return NPOS
        start = min(pos, n - len(w))
        r = s.rfind(w, 0, start + len(w))
        return NPOS if r < 0 else r
    if op == "ffo":
        for i in range(min(pos, n), n):
            if s[i] in w:
                return i
        return NPOS
    if op == "ffno":
        for i in range(min(pos, n), n):
            if s[i] not in w:
                return i
        return NPOS
    if op == "flo":
        if n == 0:
            return NPOS
        for i in range(min(pos, n - 1), -1, -1):
            if s[i] in w:
                return i
        return NPOS
    if op == "flno":
        if n == 0:
            return NPOS
        for i in range(min(pos, n - 1), -1, -1):
            if s[i] not in w:
                return i
        return NPOS
    raise AssertionError(op)


class MapModel:
    def __init__(self, rng):
        self.rng = rng
        self.m = {}

    def dump(self):
        return "{" + ", ".join("%s: %s" % (vlib.esc(k.encode()), r_val(self.m[k])) for k in sorted(self.m)) + "}"

    def step(self):
        rng, m = self.rng, self.m
        k = rng.choice(["a", "b", "c", "dd", "", "z"])
        op = rng.choice(["set", "set", "get", "at", "at", "count", "erase", "size", "empty", "clear", "range", "insert_map", "eq", "copy"])
        if op == "set":
            x = rand_elem(rng)
            if m.get(k) is not None:
                x = same_type(rng, m[k])
            m[k] = x
            return [Step('m["%s"] = %s' % (k, lit(x)), "any")]
        if op == "get":
            if k in m:
                return [Step('m["%s"]' % k, "val", r_val(m[k]))]
            m[k] = None      # operator[] default-inserts
            return [Step('m["%s"]' % k, "val", "undef")]
        if op == "at":
            if k in m:
                return [Step('m.at("%s")' % k, "val", r_val(m[k]))]
            return [Step('m.at("%s")' % k, "throw")]
        if op == "count":
            return [Step('m.count("%s")' % k, "val", r_size(1 if k in m else 0))]
        if op == "erase":
            had = k in m
            m.pop(k, None)
            return [Step('m.erase("%s")' % k, "val", r_size(1 if had else 0))]
        if op == "size":
            return [Step("m.size()", "val", r_size(len(m)))]
        if op == "empty":
            return [Step("m.empty()", "val", r_val(not m))]
        if op == "clear":
            m.clear()
            return [Step("m.clear()", "any")]
        if op == "insert_map":
            x = rand_elem(rng)
            k2 = rng.choice(["a", "q"])
            # std::map::insert does not overwrite existing keys
            for kk in (k, k2):
                if kk not in m:
                    m[kk] = x
            return [Step('m.insert(["%s": %s, "%s": %s])' % (k, lit(x), k2, lit(x)), "any")]
        if op == "eq":
            if any(v is None for v in m.values()):
                return [Step("m.size()", "val", r_size(len(m)))]
            return [Step("m == m", "val", r_val(True))]
        if op == "copy":
            SeqModel._t += 1
            t = SeqModel._t
            return [Step('var c%d = m; c%d["new%d"] = 1; c%d.size()' % (t, t, t, t), "val", r_size(len(m) + 1)),
                    Step("m.size()", "val", r_size(len(m)))]
        if op == "range":
            SeqModel._t += 1
            t = SeqModel._t
            keys = sorted(m)
            steps = [Step("var r%d = range(m); r%d.empty()" % (t, t), "val", r_val(not keys))]
            lo, hi = 0, len(keys)
            for _ in range(rng.randrange(1, 6)):
                ro = rng.choice(["front1", "front2", "back1", "pop_front", "pop_back", "empty"])
                empty = lo >= hi
                if ro == "empty":
                    steps.append(Step("r%d.empty()" % t, "val", r_val(empty)))
                elif ro in ("front1", "front2", "back1"):
                    fn = "front" if ro.startswith("front") else "back"
                    if empty:
                        steps.append(Step("r%d.%s()" % (t, fn), "throw"))
                    else:
                        kk = keys[lo if fn == "front" else hi - 1]
                        if ro == "front2":
                            steps.append(Step("r%d.front().second" % t, "val", r_val(m[kk])))
                        else:
                            steps.append(Step("r%d.%s().first" % (t, fn), "val", r_str(kk)))
                elif empty:
                    steps.append(Step("r%d.%s()" % (t, ro), "throw"))
                else:
                    if ro == "pop_front":
                        lo += 1
                    else:
                        hi -= 1
                    steps.append(Step("r%d.%s()" % (t, ro), "any"))
            return steps
        raise AssertionError(op)


class PairModel:
    def __init__(self, rng):
        self.rng = rng
        self.a, self.b = 1, "x"

    def dump(self):
        return "<%s, %s>" % (r_val(self.a), r_val(self.b))

    def step(self):
        rng = self.rng
        op = rng.choice(["first", "second", "setf", "sets"])
        if op == "first":
            return [Step("p.first", "val", r_val(self.a))]
        if op == "second":
            return [Step("p.second", "val", r_val(self.b))]
        if op == "setf":
            x = rng.randrange(-9, 9)
            self.a = x
            return [Step("p.first = %s" % lit(x), "any")]
        if op == "sets":
            x = rng.choice(["q", "rs", ""])
            self.b = x
            return [Step('p.second = "%s"' % x, "any")]
        SeqModel._t += 1
        t = SeqModel._t
        return [Step("var q%d = Pair(p); q%d.first = 77; p.first" % (t, t), "val", r_val(self.a))]


KNOWN_PROBES = [
    # (key, program) : modify-while-viewing, the property's own carve-out; each replayed in its own child process
    ("view-invalidated-by-modification:ranged-for-push_back", "var v = [1,2,3]; for (x : v) { v.push_back(x); if (v.size() > 5000) { break } }; v.size()"),
    ("view-invalidated-by-modification:range-after-reallocation", "var v = [1,2,3,4]; var r = range(v); v.reserve(10000); v.push_back(9); r.front()"),
]


# recorded finding: what resize(n, x) / resize(n) creates. std::vector::resize copies x into every new element; here the new elements are
# handles to ONE object (and to x itself). (key, program, rendering the std:: semantics give)
VALUE_PROBES = [
    ("resize-fill-elements-share-one-object", "var x = 1; var v = []; v.resize(3, x); v[0] = 7; [v[0], v[1], v[2], x]", "[int:7, int:1, int:1, int:1]"),
    ("resize-fill-elements-share-one-object", "var v = [5]; var y = 2; v.resize(3, y); v[1] += 10; [v[0], v[1], v[2], y]", "[int:5, int:12, int:2, int:2]"),
]


def run(ctx, tier, seed, scale=1.0):
    rng = random.Random(seed)
    quick = tier == "quick"
    exe = vlib.build("asan", ["seq_eval"])["seq_eval"]
    nseq = int((2500 if quick else 100000) * scale)
    maxlen = 40 if quick else 200
    cases, plans = [], []
    for k in range(nseq):
        kind = rng.choice(["Vector", "Vector", "Vector", "string", "string", "Map", "Map", "Pair"])
        if kind in ("Vector", "List"):
            mdl = SeqModel(kind, rng)
            var, init = "v", ("var v = []" if kind == "Vector" and rng.random() < 0.5 else "var v = %s()" % kind)
        elif kind == "string":
            mdl = StrModel(rng)
            var, init = "s", rng.choice(['var s = ""', "var s = string()"])
        elif kind == "Map":
            mdl = MapModel(rng)
            var, init = "m", rng.choice(["var m = Map()", 'var m = ["zz": 1]; m.erase("zz")'])
        else:
            mdl = PairModel(rng)
            var, init = "p", 'var a0 = 1; var b0 = "x"; var p = Pair(a0, b0)'
        steps = [Step(init, "any")]
        dumps = [mdl.dump()]
        L = rng.randrange(3, maxlen)
        while len(steps) < L:
            for st in (mdl.step() if rng.random() < 0.9 else const_steps(rng)):
                steps.append(st)
                dumps.append(mdl.dump())
        cases.append(["SEQ", var] + [s.src for s in steps])
        plans.append((kind, steps, dumps))
    res, hf = vlib.run_cases(exe, cases, "c12", timeout_s=120, batch=16)
    ctx.harness_failures += hf
    vlib.judge_crashes(ctx, exe, cases, res, "c12", timeout_s=120,
                       describe=lambda k: {"container": plans[k][0], "statements": cases[k][2:]})
    nsteps = 0
    for (kind, steps, dumps), c, r in zip(plans, cases, res):
        ctx.evaluations += 1
        if r.status != "ok":
            continue
        ctx.nontriv("\n".join(c))
        ctx.count("sequences:" + kind)
        for i, (st, dump, rec) in enumerate(zip(steps, dumps, r.fields)):
            nsteps += 1
            p = rec.split(US)
            cls, val, what, out, got_dump = p[0], p[1], p[2], p[3], p[4] if len(p) > 4 else ""
            opname = st.src.split("(")[0].split(" ")[0].replace("v.", "").replace("s.", "").replace("m.", "")[:14]
            wit = {"container": kind, "statements_so_far": c[2:3 + i], "failing_statement": st.src, "got": "%s %s %s" % (cls, val, what[:120])}
            if st.kind == "throw":
                ctx.count("precondition-violations-exercised")
                if cls == "ok":
                    wit["expected"] = "exception"
                    ctx.violation("no-exception-on-violated-precondition:%s:%s" % (kind, _opname(st.src)), wit)
                    break
            elif cls != "ok":
                wit["expected"] = st.want or "normal completion"
                ctx.violation("unexpected-exception:%s:%s" % (kind, _opname(st.src)), wit)
                break
            elif st.kind == "val" and val != st.want:
                wit["expected"] = st.want
                ctx.violation("wrong-result:%s:%s" % (kind, _opname(st.src)), wit)
                break
            if got_dump != dump:
                wit["expected_state"] = dump
                wit["got_state"] = got_dump
                ctx.violation("wrong-state:%s:%s" % (kind, _opname(st.src)), wit)
                break
        if len(ctx.samples) < 4:
            ctx.sample({"container": kind, "statements": c[2:14]})
    ctx.count("steps-compared", nsteps)
    ctx.min_events["precondition-violations-exercised"] = 50
    # known-finding probes (modify while viewing)
    pc = [["SEQ", "", prog] for _, prog in KNOWN_PROBES]
    pres, _ = vlib.run_cases(exe, pc, "c12k", timeout_s=60, batch=1)
    for (key, prog), r in zip(KNOWN_PROBES, pres):
        if r.status == "crash":
            ck = vlib.crash_key(r.stderr, r.fields[0] if r.fields else "?")
            ctx.violation(key, {"program": prog, "crash": ck, "stderr": r.stderr[-1500:]})
            ctx.count("known-probe-crashed")
        else:
            ctx.count("known-probe-no-longer-fails")
    vc = [["SEQ", "", prog] for _, prog, _ in VALUE_PROBES]
    vres, _ = vlib.run_cases(exe, vc, "c12v", timeout_s=60, batch=1)
    for (key, prog, want), r in zip(VALUE_PROBES, vres):
        got = r.fields[0].split(US)[:2] if r.status == "ok" and r.fields else [r.status]
        if got != ["ok", want]:
            ctx.violation(key, {"program": prog, "std_semantics": want, "got": got})
        else:
            ctx.count("value-probe-no-longer-fails")
    ctx.rule = ("one case = one seeded operation sequence (3..%d statements) on one container kind (Vector, List, string, Map, Pair and their range "
                "views) with indices from {INT_MIN,-1,0,size-1,size,size+1,INT_MAX}; after every statement result and container dump are compared "
                "with a python model; distinct by statement text, every sequence is non-trivial (>=3 statements)" % maxlen)
    ctx.assumptions += ["elements created by resize(n)/resize(n,x) are only read, never written (their Boxed_Value sharing/constness is not std:: behaviour)",
                        "allocation sizes that could legitimately fail are not generated (only > max_size())",
                        "range views are used only while the container is structurally unmodified"]


def _opname(src):
    s = src
    for pre in ("v.", "s.", "m.", "p."):
        if s.startswith(pre):
            s = s[2:]
            break
    if s.startswith("var r") or (s.startswith("r") and "." in s and s[1:s.index(".")].isdigit()):
        return "range." + s.split(".")[-1].split("(")[0] if "." in s else "range"
    if "[" in s.split("(")[0]:
        return "[]=" if "=" in s.split("]")[-1] else "[]"
    return s.split("(")[0].split(" ")[0][:20]
