"""C18 - JSON conversion round-trips and tolerates any input.
V cases: value trees built through the C++ API (ints at 2^31/2^53/2^63 boundaries, bools, null, strings over all 256 byte values,
nested vectors and string-keyed maps): from_json(to_json(v)) must equal v (structural comparer in the harness).
T cases: valid JSON texts, their mutants/truncations, random bytes, hostile numbers: from_json either throws or returns v1 with
from_json(to_json(v1)) == v1 (floats within 1e-6). N cases: nesting probes up to 10^5/10^6, also at the default 8 MiB stack.
Monitors: ASan/UBSan/assertions, poisoned input terminator, fork runner for signals/terminate/hangs."""
import json
import random

import vlib

LEVEL = "exploration"

INTS = [0, 1, -1, 7, 255, 256, 65535, 2**31 - 1, 2**31, -2**31, -2**31 - 1, 2**32, 2**53 - 1, 2**53, 2**53 + 1, -2**53, 2**63 - 1, -2**63 + 1,
        10**18, -10**18, 1234567890123]


def rand_bytes_str(rng):
    k = rng.randrange(8)
    if k == 0:
        return b""
    if k == 1:
        return bytes(rng.randrange(256) for _ in range(rng.randrange(1, 12)))
    if k == 2:
        return rng.choice([b'"', b"\\", b'\\"', b"\\\\", b"\\u0041", b"\\n", b"\n\t\r\b\f", b"\x00", b"\x7f\x80\xff", b"/", b"\\/", b"a\"b\\c",
                           b"\\u", b"\\u12", b"{}[],:", b"null", b"true", b" ", b"\xe2\x82\xac"])
    if k == 3:
        return bytes(rng.choice(b"\"\\\n\t\r\b\f/u0aZ \x00\x01\x1f\x7f\x80\xfe") for _ in range(rng.randrange(1, 10)))
    return bytes(rng.choice(b"abcdefgh XYZ019_-") for _ in range(rng.randrange(1, 10)))


def rand_tree(rng, depth):
    k = rng.randrange(10 if depth > 0 else 6)
    if k < 2:
        return ("i", rng.choice(INTS) if rng.random() < 0.6 else rng.randrange(-10**6, 10**6))
    if k == 2:
        return ("b", rng.random() < 0.5)
    if k == 3:
        return ("n",)
    if k < 6:
        return ("s", rand_bytes_str(rng))
    if k < 8:
        return ("v", [rand_tree(rng, depth - 1) for _ in range(rng.randrange(0, 6))])
    d = {}
    for _ in range(rng.randrange(0, 6)):
        d[rand_bytes_str(rng)] = rand_tree(rng, depth - 1)
    return ("m", d)


def spec(t):
    k = t[0]
    if k == "i":
        return b"i%d;" % t[1]
    if k == "b":
        return b"b1" if t[1] else b"b0"
    if k == "n":
        return b"n"
    if k == "s":
        return b"s%d:" % len(t[1]) + t[1]
    if k == "v":
        return b"v%d:" % len(t[1]) + b"".join(spec(x) for x in t[1])
    return b"m%d:" % len(t[1]) + b"".join(b"%d:" % len(key) + key + spec(v) for key, v in t[1].items())


def is_trivial(t):
    return t[0] in ("i", "b", "n")


def rand_json_text(rng, depth):
    """a syntactically valid JSON text with floats, exponents, escapes and whitespace noise"""
    ws = lambda: rng.choice(["", "", " ", "\n", "\t", "  ", "\r\n"])
    k = rng.randrange(12 if depth > 0 else 8)
    if k == 0:
        return str(rng.choice(INTS))
    if k == 1:
        return rng.choice(["0.5", "-0.25", "1.5e3", "1E-2", "123.456", "2.5E+10", "-1e-7", "0.000001", "1e300", "1e-300", "3.141592653589793",
                           "100.0", "-0.0", "1e0", "12345678.9", "0.1", "1e15", "9007199254740993.0", "4.9e-324", "1.7976931348623157e308"])
    if k == 2:
        return rng.choice(["true", "false", "null"])
    if k < 6:
        parts = []
        for _ in range(rng.randrange(0, 8)):
            parts.append(rng.choice(["a", "b", " ", "\\n", "\\t", '\\"', "\\\\", "\\/", "\\b", "\\f", "\\r", "\\u0041", "\\u00e9", "\\uD83D", "\\q", "é",
                                     "\x01", "{", "]", ",", ":"]))
        return '"' + "".join(parts) + '"'
    if k < 8:
        return "%d" % rng.randrange(-1000, 1000)
    if k < 10:
        return "[" + ws() + (("," + ws()).join(rand_json_text(rng, depth - 1) for _ in range(rng.randrange(0, 5)))) + ws() + "]"
    items = []
    for _ in range(rng.randrange(0, 5)):
        key = '"' + "".join(rng.choice(["a", "b", "k", " ", "\\n", '\\"', "\\u0041", ""]) for _ in range(rng.randrange(0, 4))) + '"'
        items.append(key + ws() + ":" + ws() + rand_json_text(rng, depth - 1))
    return "{" + ws() + (("," + ws()).join(items)) + ws() + "}"


def mutate_text(rng, b):
    b = bytearray(b)
    for _ in range(rng.choice((1, 1, 2, 3))):
        op = rng.randrange(7)
        pos = rng.randrange(len(b) + 1)
        if op == 0 and b:
            b[rng.randrange(len(b))] = rng.randrange(256)
        elif op == 1:
            b[pos:pos] = rng.choice([b"[", b"]", b"{", b"}", b'"', b"\\", b",", b":", b"-", b"e", b"E", b".", b"\\u", b"\x00", b" ", b"1e", b"tru", b"nul",
                                     b"99999999999999999999", b"1e99999", b"-", b"\xff"])
        elif op == 2 and b:
            del b[rng.randrange(len(b))]
        elif op == 3:
            del b[pos:]
        elif op == 4 and b:
            e = min(len(b), pos + rng.randrange(1, 20))
            b[pos:pos] = b[pos:e]
        elif op == 5 and b:
            e = min(len(b), pos + rng.randrange(1, 10))
            del b[pos:e]
        else:
            b[pos:pos] = bytes(rng.randrange(256) for _ in range(rng.randrange(1, 4)))
    return bytes(b)


HOSTILE = [b"", b" ", b"\n", b"[", b"]", b"{", b"}", b'"', b'"\\', b'"\\u', b'"\\u12', b'"\\u123', b"-", b"-x", b"1e", b"1e+", b"1e-", b"1.", b".5", b"1.2.3",
           b"1e999999999999999999999", b"9" * 400, b"-" + b"9" * 400, b"0." + b"9" * 400, b"1" + b"0" * 400 + b".5", b"1e-99999999999", b"tru", b"t", b"f", b"n",
           b"nul", b"nulll", b"truefalse", b"[1,", b"[1,]", b"[,1]", b"{,}", b'{"a"}', b'{"a":}', b'{"a":1,}', b'{1:2}', b'{"a":1 "b":2}', b"[1 2]",
           b'["a" "b"]', b"\xff\xfe", b"\x00", b"[\x00]", b'"\x00"', b'{"a":1,"a":2}', b'{"":{"":{"":[]}}}', b"1 2", b"[]]", b"[1]x", b"'a'", b"[1e5]",
           b"[-0]", b"[-]", b"-0.0e-0", b'"\\ud800"', b'"\xed\xa0\x80"', b"// c\n1", b"/**/1", b"Infinity", b"NaN", b"-Infinity", b"0x10", b"01", b"+1",
           b'"a' + b"\\" * 7 + b'"', b"[" + b"1," * 2000 + b"1]", b"{" + b",".join(b'"k%d":%d' % (i, i) for i in range(500)) + b"}"]

NEST = [(b"[", b"", b"]"), (b"[", b"1", b"]"), (b'{"a":', b"1", b"}"), (b"[", b"", b""), (b'{"a":', b"", b""), (b'[{"a":', b"[]", b"}]"), (b"[[", b"", b"]"),
        (b"", b"", b"]"), (b"-", b"1", b""), (b'"', b"", b""), (b"[", b'"x"', b"]"), (b" ", b"1", b" ")]


def run(ctx, tier, seed, scale=1.0):
    rng = random.Random(seed)
    quick = tier == "quick"
    exe = vlib.build("asan", ["c18_json"])["c18_json"]
    exe_plain = vlib.build("plain", ["c18_json"])["c18_json"]
    ntree = int((20000 if quick else 600000) * scale)
    ntext = int((50000 if quick else 1000000) * scale)
    cases, meta = [], []
    for _ in range(ntree):
        t = rand_tree(rng, rng.randrange(0, 6))
        cases.append(["V", spec(t)])
        meta.append(("V", is_trivial(t)))
    # every single byte value inside a string, as key and as value
    for c in range(256):
        t = ("m", {bytes([c]): ("s", bytes([c, c])), b"k": ("v", [("s", bytes([c]))])})
        cases.append(["V", spec(t)])
        meta.append(("V", False))
    valid = []
    for _ in range(ntext // 5):
        valid.append(rand_json_text(rng, rng.randrange(0, 5)).encode("utf-8", "replace"))
    for v in valid:
        cases.append(["T", v])
        meta.append(("T-valid", False))
    for h in HOSTILE:
        cases.append(["T", h])
        meta.append(("T-hostile", False))
    pool = [v for v in valid if v] + [json.dumps({"a": [1, 2.5, "x", None, True, {"b": []}], "c": "d\n"}).encode()]
    for _ in range(ntext - ntext // 5):
        r = rng.random()
        if r < 0.8:
            cases.append(["T", mutate_text(rng, rng.choice(pool))])
            meta.append(("T-mutant", False))
        else:
            cases.append(["T", bytes(rng.choice(b'[]{}",:0123456789.eE-+ truefalsn\\u\x00\xff') for _ in range(rng.randrange(1, 30)))])
            meta.append(("T-random", False))
    res, hf = vlib.run_cases(exe, cases, "c18", timeout_s=120, batch=128)
    ctx.harness_failures += hf
    vlib.judge_crashes(ctx, exe, cases, res, "c18", timeout_s=120)
    for (fam, trivial), c, r in zip(meta, cases, res):
        ctx.evaluations += 1
        ctx.count("family:" + fam)
        if r.status != "ok":
            continue
        f = r.fields
        if not trivial:
            ctx.nontriv(c[0].encode() + b"|" + (c[1] if isinstance(c[1], bytes) else c[1].encode()))
        st = f[0]
        ctx.count("outcome:" + st)
        if fam == "V":
            if st != "ok":
                ctx.violation("value-roundtrip:%s" % st, {"value_spec": vlib.esc(c[1])[:1500], "why": f[1][:300], "exception": f[2], "what": f[3][:200],
                                                         "json": f[4] if len(f) > 4 else ""})
            elif len(ctx.samples) < 3 and not trivial and rng.random() < 0.01:
                ctx.sample({"family": "V", "value_spec": vlib.esc(c[1])[:300], "json": f[4][:200]})
        else:
            if st in ("accepted-but-roundtrip-differs", "accepted-but-roundtrip-throws"):
                ctx.violation("text-idempotence:%s" % st, {"text": vlib.esc(c[1])[:1500], "why": f[1][:300], "exception": f[2], "what": f[3][:200],
                                                          "re-dumped": f[4] if len(f) > 4 else ""})
            elif st == "rejected":
                ctx.count("rejected-with:" + f[1])
            if len(ctx.samples) < 6 and fam == "T-mutant" and rng.random() < 0.001:
                ctx.sample({"family": fam, "text": vlib.esc(c[1])[:300], "outcome": st})
    # nesting probes
    for flavour, x, stack, maxd in (("plain", exe_plain, 8 << 20, 100000 if quick else 1000000), ("asan", exe, 256 << 20, 10000 if quick else 100000)):
        pc = []
        for pre, mid, suf in NEST:
            for n in (1, 16, 100, 511, 512, 513, 2000, 10000, 100000, 1000000):
                if n <= maxd:
                    pc.append(["N", pre, str(n), mid, suf])
        pres, hf = vlib.run_cases(x, pc, "c18n" + flavour, timeout_s=300, batch=1, stack_bytes=stack)
        ctx.harness_failures += hf
        vlib.judge_crashes(ctx, x, pc, pres, "c18n" + flavour, timeout_s=300, stack_bytes=stack,
                           describe=lambda k, pc=pc, fl=flavour: {"flavour": fl, "probe": [vlib._short(str(z), 60) for z in pc[k]]})
        for c, r in zip(pc, pres):
            ctx.evaluations += 1
            ctx.count("family:nest-" + flavour)
            if r.status == "ok":
                ctx.nontriv(("N" + flavour + repr(c)).encode())
                ctx.count("nest-outcome:" + r.fields[0])
                if r.fields[0].startswith("accepted-but"):
                    ctx.violation("text-idempotence:%s" % r.fields[0], {"probe": [vlib._short(str(z), 60) for z in c], "why": r.fields[1][:200]})
    # histories: the outcome for a text must not depend on what the same thread parsed before (accepted, rejected, too deep, malformed)
    US = "\x1f"
    specs = [("[", 1, "1", "]"), ("[", 400, "1", "]"), ("[", 500, "", "]"), ("[", 511, "1", "]"), ("[", 600, "1", "]"), ("[", 5000, "", ""), ('{"a":', 300, "1", "}"),
             ('{"a":', 700, "1", "}"), ("[", 3, "1e999", "]"), ("[", 2, "tru", "]"), ('"', 1, "\\u12", '"'), ("[", 512, "1", "]"), ("[", 513, "1", "]"), ("", 1, "{", ""),
             ("[", 10, '"a', ""), ("", 1, "-", "")]
    hist, hmeta = [], []
    for _ in range(int((60 if quick else 2000) * scale) + 1):
        seq = [rng.choice(specs) for _ in range(rng.randrange(8, 40))]
        hist.append(["Q"] + [US.join([a, str(n), m, z]) for a, n, m, z in seq])
        hmeta.append(seq)
    hres, hf2 = vlib.run_cases(exe, hist, "c18h", timeout_s=300, batch=2)
    ctx.harness_failures += hf2
    vlib.judge_crashes(ctx, exe, hist, hres, "c18h", timeout_s=300, describe=lambda k: {"history": [list(x) for x in hmeta[k]]})
    for seq, r in zip(hmeta, hres):
        ctx.evaluations += 1
        if r.status != "ok":
            continue
        ctx.nontriv(repr(seq))
        first = {}
        for i, (sp, oc) in enumerate(zip(seq, r.fields)):
            ctx.count("history-texts")
            if sp not in first:
                first[sp] = (i, oc)
            elif first[sp][1] != oc:
                ctx.violation("outcome-depends-on-history", {"history": [list(x) for x in seq[:i + 1]], "text": list(sp), "first_outcome": first[sp][1],
                                                             "later_outcome": oc, "positions": [first[sp][0], i]})
                break
    if not quick:
        fexe = vlib.build("fuzz", ["fuzz_json"])["fuzz_json"]
        seeds = [c[1] for c, m in zip(cases, meta) if m[0].startswith("T") and len(c[1]) < 2048][:5000]
        stats, arts = vlib.run_libfuzzer(fexe, "c18fuzz", seeds, runs=int(200000 * scale) + 1000, max_len=2048,
                                         dictionary=[b"[", b"]", b"{", b"}", b'"', b"\\", b"\\u", b"true", b"false", b"null", b"1e", b"-", b".", b":", b","])
        ctx.counters["libfuzzer"] = stats
        ctx.counters["fuzz-executions"] = stats["executions"]
        ctx.min_events["fuzz-executions"] = 1000
        ctx.evaluations += stats["executions"]
        if arts:
            acases = [["T", b] for _, b in arts]
            ares, hf3 = vlib.run_cases(exe, acases, "c18art", timeout_s=120, batch=1)
            ctx.harness_failures += hf3
            vlib.judge_crashes(ctx, exe, acases, ares, "c18art", timeout_s=120)
            for (fn, b), r in zip(arts, ares):
                if r.status == "ok" and r.fields[0].startswith("accepted-but"):
                    ctx.violation("text-idempotence:%s" % r.fields[0], {"text": vlib.esc(b)[:1500], "why": r.fields[1][:300], "found_by": "libFuzzer"})
                elif r.status == "ok":
                    ctx.inconc("fuzzer-artifact-does-not-reproduce:" + fn.split("-")[0], vlib.esc(b)[:300])
    ctx.rule = ("V = random value tree (depth<=5, width<=5, strings over all byte values, ints at 2^31/2^53/2^63 boundaries) built through the C++ API; "
                "T = valid JSON text / mutant / random bytes / hand-written hostile text; N = nesting probe; a case is non-trivial unless it is a bare "
                "int/bool/null; distinct by content")
    ctx.assumptions += ["doubles are compared with 1e-6 absolute or relative tolerance (to_json prints six decimals)",
                        "any C++ exception from from_json counts as 'throws'; only crashes, hangs, over-reads and round-trip differences are violations"]
