"""C07 - const values cannot be modified from script.
Every kind of const source (C++ objects shared by const reference / const pointer / shared_ptr<const>, const return values, add_global_const and
const_var values, script literals) is reached through a generated alias chain (reference declaration, := rebinding, parameter, capture, bind,
return; or copying steps) and attacked with every mutator applicable to its type (all assignment operators, ++/--, mutating members of
string/Vector/Map/user class, harness functions taking T&, T*, shared_ptr<T>, reference_wrapper<T>). Conservation oracle: the harness owns
the objects and compares a snapshot of all of them before and after each attempt; in addition an attempt through a reference-preserving
chain with a mutator of the object's own type must end in an exception."""
import random

import vlib

LEVEL = "exploration"

SOURCES = {  # name -> (kind, expression)
    "ref_int": ("int", "ref_int"), "ptr_int": ("int", "ptr_int"), "global_int": ("int", "global_int"), "local_const_int": ("int", "local_const_int"),
    "ref_dbl": ("dbl", "ref_dbl"),
    "ref_str": ("str", "ref_str"), "ptr_str": ("str", "ptr_str"), "global_str": ("str", "global_str"), "local_const_str": ("str", "local_const_str"),
    "ret_str": ("str", "ret_str()"), "shared_str": ("str", "shared_str"),
    "ref_obj": ("obj", "ref_obj"), "ptr_obj": ("obj", "ptr_obj"), "ret_obj": ("obj", "ret_obj()"), "shared_obj": ("obj", "shared_obj"),
    "global_obj": ("obj", "global_obj"),
    "ref_vec": ("vec", "ref_vec"), "global_vec_size": ("vec", "global_vec"),
    "ref_map": ("map", "ref_map"),
    "host_fn": ("fn", "host_fn"), "script_fn": ("fn", "script_fn"), "const_var_fn": ("fn", "const_var_fn"),
}

MUTATORS = {  # kind -> [(template with {x}, own_type?)]
    "int": [("{x} = 1", True), ("{x} += 1", True), ("{x} -= 1", True), ("{x} *= 2", True), ("{x} /= 2", True), ("{x} %= 5", True), ("{x} <<= 1", True),
            ("{x} >>= 1", True), ("{x} |= 1", True), ("{x} &= 1", True), ("{x} ^= 1", True), ("++{x}", True), ("--{x}", True), ("mut_int_ref({x})", True),
            ("mut_int_ptr({x})", True), ("mut_int_shared({x})", False), ("mut_int_refwrap({x})", False), ("mut_dbl_ref({x})", False), ("{x} = 1.5", True),
            # the same operators reached as functions (no Equation / Prefix node in between)
            ("`+=`({x}, 1)", True), ("{x}.`+=`(1)", True), ("bind(`+=`, {x}, _)(1)", True), ("`++`({x})", True), ("`--`({x})", True), ("`=`({x}, 1)", True),
            ("`*=`({x}, 2)", True), ("`-=`({x}, 1)", True), ("{x}.`=`(3)", True), ("bind(`=`, {x}, _)(4)", True), ("`|=`({x}, 1)", True)],
    "dbl": [("{x} = 1.0", True), ("{x} += 1", True), ("{x} *= 2", True), ("++{x}", True), ("--{x}", True), ("mut_dbl_ref({x})", True), ("mut_int_ref({x})", False),
            ("{x} /= 2", True), ("{x} -= 0.5", True), ("`+=`({x}, 1.0)", True), ("{x}.`*=`(2.0)", True), ("`=`({x}, 1.0)", True), ("`++`({x})", True)],
    "str": [('{x} = "a"', True), ('{x} += "a"', True), ("{x} += 'c'", True), ("{x}.push_back('c')", True), ("{x}.clear()", True), ("{x}[0] = 'z'", True),
            ("{x}.insert_at(0, 'a')", True), ("{x}.erase_at(0)", True), ("mut_str_ref({x})", True), ("mut_str_ptr({x})", True), ("mut_str_shared({x})", True),
            ('`+=`({x}, "a")', True), ('{x}.`+=`("a")', True), ('`=`({x}, "q")', True), ('bind(`=`, {x}, _)("zz")', True), ('{x}.`=`("y")', True)],
    "fn": [("{x} = fun() {{ 0 }}", True), ("`=`({x}, fun() {{ 0 }})", True), ("{x}.`=`(fun() {{ 0 }})", True), ("bind(`=`, {x}, _)(fun() {{ 0 }})", True),
           ("{x} := fun() {{ 0 }}", True), ("`=`({x}, script_fn)", True), ("`=`({x}, host_fn)", True)],
    "obj": [("{x}.set(5)", True), ("{x}.v = 5", True), ('{x}.rename("n")', True), ('{x}.s = "n"', True), ('{x}.s += "n"', True), ("{x} = Obj()", True),
            ("mut_obj_ref({x})", True), ("mut_obj_ptr({x})", True), ("mut_obj_shared({x})", True), ("++{x}.v", True), ("{x}.s.clear()", True),
            ("mut_int_ref({x}.v)", True), ("mut_str_ref({x}.s)", True)],
    "vec": [("{x}.push_back(1)", True), ("{x}.clear()", True), ("{x}.pop_back()", True), ("{x}.resize(1)", True), ("{x}.insert_at(0, 1)", True),
            ("{x}.erase_at(0)", True), ("{x} = [9]", True), ("mut_vec_ref({x})", True), ("mut_vec_ptr({x})", True), ("{x}.push_back_ref(1)", True),
            ("{x}.resize(5, 1)", True)],
    "map": [('{x}["new"] = 1', True), ("{x}.clear()", True), ('{x}.erase("a")', True), ('{x}.insert(["q": 1])', True), ("mut_map_ref({x})", True),
            ('{x}.insert_ref(Map_Pair("k", 1))', True)],
}


def build(rng, idx):
    src = rng.choice(list(SOURCES))
    kind, expr = SOURCES[src]
    setup = []
    x = expr
    preserving = True
    wrappers = []       # functions that wrap the attempt (applied innermost first)
    n = 0
    nplain = rng.randrange(0, 4)
    nwrap = rng.choice([0, 0, 1, 1, 2])
    for i in range(nplain + nwrap):
        n += 1
        if i < nplain:
            step = rng.choice(["ref", "ref", "rebind", "return", "copy", "vec_elem"])
        else:
            step = rng.choice(["param", "capture", "bind", "param_ref_decl"])      # wrappers come last: later names live inside them
        if step == "ref":
            setup.append("var &a%d = %s" % (n, x))
            x = "a%d" % n
        elif step == "rebind":
            setup.append("var b%d\nb%d := %s" % (n, n, x))
            x = "b%d" % n
        elif step == "return":
            setup.append("def r%d(p) { return p }" % n)
            x = "r%d(%s)" % (n, x)
        elif step == "copy":
            setup.append("var y%d = %s" % (n, x))
            x = "y%d" % n
            preserving = False
        elif step == "vec_elem":
            setup.append("var e%d = [%s]" % (n, x))
            x = "e%d[0]" % n
            preserving = False
        else:
            wrappers.append((step, n, x))
            x = "q%d" % n
    mut, own = rng.choice(MUTATORS[kind])
    attempt = mut.format(x=x)
    # wrap from the innermost alias outwards
    for step, n, arg in reversed(wrappers):
        if step == "param":
            setup.append("def w%d(q%d) {\n  %s\n}" % (n, n, attempt))
            attempt = "w%d(%s)" % (n, arg)
        elif step == "param_ref_decl":
            setup.append("def w%d(z%d) {\n  var &q%d = z%d\n  %s\n}" % (n, n, n, n, attempt))
            attempt = "w%d(%s)" % (n, arg)
        elif step == "bind":
            setup.append("def w%d(q%d) {\n  %s\n}" % (n, n, attempt))
            attempt = "bind(w%d, %s)()" % (n, arg)
        else:
            attempt = "var &q%d = %s\nvar l%d = fun[q%d]() {\n  %s\n}\nl%d()" % (n, arg, n, n, attempt, n)
    return {"source": src, "kind": kind, "setup": "\n".join(setup), "attempt": attempt, "must_fail": preserving and own, "mutator": mut}


LITERALS = [("5", "int", "int:5"), ('"lit"', "str", "string:lit"), ("2.5", "dbl", "double:2.5"), ("[1, 2]", "vec", "[int:1, int:2]"), ("true", "bool", "bool:true"),
            ("'c'", "chr", "char:99"), ("-3", "int", "int:-3"), ("(1 + 2)", "int", "int:3"), ('("a" + "b")', "str", "string:ab"), ("!false", "bool", "bool:true")]
LIT_MUT = {"int": MUTATORS["int"][:13] + [mm for mm in MUTATORS["int"] if "`" in mm[0]], "dbl": MUTATORS["dbl"][:5], "str": MUTATORS["str"][:8], "vec": MUTATORS["vec"][:7],
           "bool": [("{x} = false", True)], "chr": [("{x} = 'd'", True), ("++{x}", True)]}


def build_literal(rng, idx):
    lit, kind, rendered = rng.choice(LITERALS)
    mut, _ = rng.choice(LIT_MUT[kind])
    how = rng.choice(["ref", "param", "direct"])
    if how == "ref":
        setup = "def att(k) {\n  var &r = %s\n  if (k == 1) { %s }\n  r\n}" % (lit, mut.format(x="r"))
    elif how == "param":
        setup = "def inner(p, k) {\n  if (k == 1) { %s }\n  p\n}\ndef att(k) { inner(%s, k) }" % (mut.format(x="p"), lit)
    else:
        setup = "def att(k) {\n  if (k == 1) { %s }\n  %s\n}" % (mut.format(x=lit), lit)
    attempt = "var first = att(0)\nvar failed = false\ntry { att(1) } catch (e) { failed = true }\n[att(0), att(0)]"
    return {"source": "literal", "kind": kind, "setup": setup, "attempt": attempt, "must_fail": False, "mutator": mut,
            "literal_expect": "[%s, %s]" % (rendered, rendered)}


def run(ctx, tier, seed, scale=1.0):
    rng = random.Random(seed)
    quick = tier == "quick"
    exe = vlib.build("asan", ["c07_const"])["c07_const"]
    n = int((2500 if quick else 100000) * scale)
    plans = [build(rng, i) if rng.random() < 0.85 else build_literal(rng, i) for i in range(n)]
    cases = [["K", p["source"], p["setup"], p["attempt"]] for p in plans]
    res, hf = vlib.run_cases(exe, cases, "c07", timeout_s=120, batch=16)
    ctx.harness_failures += hf
    vlib.judge_crashes(ctx, exe, cases, res, "c07", timeout_s=120, describe=lambda k: plans[k])
    for p, r in zip(plans, res):
        ctx.evaluations += 1
        if r.status != "ok":
            continue
        f = r.fields
        if f[0] != "ok":
            ctx.count("setup-rejected")      # e.g. an alias step that is itself refused for a const source
            ctx.count("setup-rejected:" + f[1][:50])
            continue
        cls, what, changed, result = f[1], f[2], f[3], f[4]
        ctx.nontriv(p["setup"] + "|" + p["attempt"])
        ctx.count("source:" + p["source"])
        ctx.count("attempt-outcome:" + ("refused" if cls != "ok" else "completed"))
        wit = dict(p)
        wit.update({"outcome": [cls, what], "changed": changed, "result": result})
        if changed:
            ctx.violation("const-object-changed:%s:%s" % (p["kind"], _mclass(p["mutator"])), wit)
        elif p["source"] == "literal":
            if cls != "ok" or result != p["literal_expect"]:
                ctx.violation("literal-changed-or-unusable:%s:%s" % (p["kind"], _mclass(p["mutator"])), wit)
        elif p["must_fail"] and cls == "ok":
            ctx.violation("mutation-reported-success:%s:%s" % (p["kind"], _mclass(p["mutator"])), wit)
        if len(ctx.samples) < 4 and rng.random() < 0.002:
            ctx.sample({"source": p["source"], "setup": p["setup"], "attempt": p["attempt"], "outcome": cls})
    if not ctx.samples:
        ctx.sample(plans[0])
    ctx.min_events["attempt-outcome:refused"] = 500
    ctx.rule = ("one case = const source (22 sources: C++ const&, const*, shared_ptr<const>, const return values, add_global_const / const_var values, registered C++ / script / const_var function objects; "
                "plus 10 literal spellings) x alias chain of 0-4 steps (var &, :=, parameter, parameter + reference, capture, bind, return; copy, vector "
                "element) x one mutator of the source's type (operators in infix/prefix form and reached as functions: `+=`(x, 1), x.`+=`(1), bind(`=`, x, _)(v)); distinct by script text; all non-trivial")
    ctx.assumptions += ["an arithmetic const value handed to a shared_ptr<int> / reference_wrapper<int> parameter reaches it through a converted temporary "
                        "(observed, nowhere specified): only conservation is judged for these two parameter forms",
                        "elements of a const Vector/Map are separate objects with their own constness (as with const vector<shared_ptr<T>>): writing an element "
                        "is not generated", "a mutator whose parameter type differs from the object's type may legitimately act on a converted temporary: only "
                        "conservation is required there"]


def _mclass(m):
    if "`" in m:
        return "function-form:" + m.split("`")[1]
    if "mut_" in m:
        return m.split("(")[0]
    if "{x}." in m:
        return "member:" + m.split("{x}.")[1].split("(")[0].split(" ")[0]
    return "operator:" + m.replace("{x}", "").strip().split(" ")[0]
