"""C17 - prelude algorithms compute what their names say.
Every call is evaluated on the real (ASan) engine as '[result, callback-log, input-after-call]' and compared with a python
functional specification: result, exact callback trace (once per element, in order, short-circuiting where the name implies it),
and the input container unchanged. All int vectors of length 0..4 over {-3..3} are enumerated completely; random longer vectors,
strings and maps extend that."""
import itertools
import random

import vlib

LEVEL = "exploration"
US = "\x1f"


def ri(v):
    return "int:%d" % v


def rd(v):
    # %.17g of an integral double of small magnitude
    if v == 0:
        return "double:-0" if str(v).startswith("-") else "double:0"
    if v == int(v) and abs(v) < 1e15:
        return "double:%d" % int(v)
    return "double:%r" % v


def rb(v):
    return "bool:true" if v else "bool:false"


def rs(s):
    return "string:" + vlib.esc(s.encode("latin-1"))


def rv(items):
    return "[" + ", ".join(items) + "]"


def rvi(L):
    return rv([ri(x) for x in L])


def lit_vec(L):
    return "[" + ", ".join(str(x) if x >= 0 else "(%d)" % x for x in L) + "]" if L else "Vector()"


def chai_str(s):
    return '"' + s.replace("\\", "\\\\").replace('"', '\\"').replace("\n", "\\n").replace("\t", "\\t").replace("\r", "\\r") + '"'


def to_string_int_vec(L):
    return "[" + ", ".join(str(x) for x in L) + "]"


class Plan:
    def __init__(self):
        self.stmts = []     # (source, expected-rendering or None for 'must fail', tag)
        self.n = 0

    def add(self, tag, src, want):
        self.stmts.append((src, want, tag))

    def logged(self, tag, call, result, log, inp):
        """call uses LOG as the log variable name and V as the input"""
        self.n += 1
        name = "log%d" % self.n
        src = "var %s = []; [%s, %s, v]" % (name, call.replace("LOG", name), name)
        self.add(tag, src, rv([result, rvi(log), rvi(inp)]))


def int_vector_plan(L, rng, W):
    p = Plan()
    n = len(L)
    p.add("init", "var v = %s; var w = %s; v.size()" % (lit_vec(L), lit_vec(W)), "unsigned long:%d" % n)
    p.logged("map", "map(v, fun[LOG](x) { LOG.push_back(x); x * 2 })", rvi([x * 2 for x in L]), L, L)
    p.logged("filter", "filter(v, fun[LOG](x) { LOG.push_back(x); x > 0 })", rvi([x for x in L if x > 0]), L, L)
    p.logged("for_each", "for_each(v, fun[LOG](x) { LOG.push_back(x * 3) }); 0", ri(0), [x * 3 for x in L], L) if False else None
    p.n += 1
    p.add("for_each", "var fe = []; for_each(v, fun[fe](x) { fe.push_back(x * 3) }); [fe, v]", rv([rvi([x * 3 for x in L]), rvi(L)]))
    acc = 1
    for x in L:
        acc = (acc * 2 + x) % 1000
    p.logged("foldl", "foldl(v, fun[LOG](x, acc) { LOG.push_back(x); (acc * 2 + x) % 1000 }, 1)",
             ri(_cmod_fold(L)), L, L)
    if n >= 2:
        r = L[0]
        for x in L[1:]:
            r = _cmod(r * 2 + x, 1000)
        p.logged("reduce", "reduce(v, fun[LOG](a, b) { LOG.push_back(b); (a * 2 + b) % 1000 })", ri(r), L[1:], L)
    else:
        p.add("reduce-too-short", "reduce(v, fun(a, b) { a + b })", None)
    p.add("sum", "[sum(v), v]", rv([rd(float(sum(L))), rvi(L)]))
    prod = 1.0
    for x in L:
        prod = x * prod          # double arithmetic, so the sign of a zero result follows IEEE
    p.add("product", "[product(v), v]", rv([rd(prod), rvi(L)]))
    k = rng.choice(L) if L and rng.random() < 0.7 else rng.randrange(-3, 4)
    # short-circuit traces
    pre = []
    hit = False
    for x in L:
        pre.append(x)
        if x == k:
            hit = True
            break
    p.logged("any_of", "any_of(v, fun[LOG](x) { LOG.push_back(x); x == %d })" % k, rb(hit), pre, L)
    pre, ok = [], True
    for x in L:
        pre.append(x)
        if not (x != k):
            ok = False
            break
    p.logged("all_of", "all_of(v, fun[LOG](x) { LOG.push_back(x); x != %d })" % k, rb(ok), pre, L)
    p.add("contains", "[contains(v, %d), v]" % k, rv([rb(k in L), rvi(L)]))
    p.add("contains-cmp", "contains(v, %d, fun(a, b) { a == b + 1 })" % k, rb(any(a == k + 1 for a in L)))
    first = L.index(k) if k in L else None
    p.add("find-empty", "find(v, %d).empty()" % k, rb(first is None))
    if first is not None:
        p.add("find-front", "var fr = find(v, %d); fr.front()" % k, ri(k))
        rest = L[first:]
        p.add("find-rest", "var fr2 = find(v, %d); var out = []; while (!fr2.empty()) { out.push_back(fr2.front()); fr2.pop_front() }; out" % k, rvi(rest))
    for m in sorted(set([-2, -1, 0, 1, n - 1, n, n + 1, 100]) & set(range(-2, 101)) if n <= 2 else set(rng.sample([-2, -1, 0, 1, n - 1, n, n + 1, 100], 4))):
        p.add("take", "[take(v, %d), v]" % m, rv([rvi(L[:max(0, m)]), rvi(L)]))
        p.add("drop", "[drop(v, %d), v]" % m, rv([rvi(L[max(0, m):]), rvi(L)]))
    tw, log = [], []
    for x in L:
        log.append(x)
        if x < 2:
            tw.append(x)
        else:
            break
    p.logged("take_while", "take_while(v, fun[LOG](x) { LOG.push_back(x); x < 2 })", rvi(tw), log, L)
    i = 0
    log = []
    while i < n:
        log.append(L[i])
        if L[i] < 2:
            i += 1
        else:
            break
    p.logged("drop_while", "drop_while(v, fun[LOG](x) { LOG.push_back(x); x < 2 })", rvi(L[i:]), log, L)
    z = list(zip(L, W))
    p.add("zip", "[zip(v, w), v, w]", rv([rv([rvi([a, b]) for a, b in z]), rvi(L), rvi(W)]))
    p.n += 1
    p.add("zip_with", "var zl = []; [zip_with(fun[zl](a, b) { zl.push_back(a); a * 10 + b }, v, w), zl, v, w]",
          rv([rvi([a * 10 + b for a, b in z]), rvi([a for a, _ in z]), rvi(L), rvi(W)]))
    p.add("concat", "[concat(v, w), v, w]", rv([rvi(L + W), rvi(L), rvi(W)]))
    p.add("join", '[join(v, ", "), join(v, ""), join(v, "ab")]',
          rv([rs(", ".join(map(str, L))), rs("".join(map(str, L))), rs("ab".join(map(str, L)))]))
    p.add("reverse", "[reverse(v), v]", rv([rvi(L[::-1]), rvi(L)]))
    p.add("retro", "var rr = retro(range(v)); var ro = []; while (!rr.empty()) { ro.push_back(rr.front()); rr.pop_front() }; [ro, v]",
          rv([rvi(L[::-1]), rvi(L)]))
    if n:
        p.add("retro-ends", "var r2 = retro(range(v)); [r2.front(), r2.back()]", rvi([L[-1], L[0]]))
        p.add("retro-retro", "var r3 = retro(retro(range(v))); [r3.front(), r3.back()]", rvi([L[0], L[-1]]))
        p.add("retro-pop_back", "var r4 = retro(range(v)); r4.pop_back(); r4.empty() ? %d : r4.back()" % 99, ri(99 if n == 1 else L[1]))
    p.add("to_string", "[to_string(v), v.to_string()]", rv([rs(to_string_int_vec(L)), rs(to_string_int_vec(L))]))
    p.add("to_string-nested", "to_string([v, w])", rs("[" + to_string_int_vec(L) + ", " + to_string_int_vec(W) + "]"))
    p.add("to_string-pair", 'to_string(Pair(%d, "q"))' % k, rs("<%d, q>" % k))
    a, b = rng.randrange(-3, 4), rng.randrange(-3, 4)
    p.add("min-max", "[min(%d, %d), max(%d, %d), min(%d, %d), max(%d, %d)]" % (a, b, a, b, b, a, b, a), rvi([min(a, b), max(a, b), min(a, b), max(a, b)]))
    p.add("even-odd", "map(v, fun(x) { [even(x), odd(x)] })", rv([rv([rb(x % 2 == 0), rb(x % 2 != 0)]) for x in L]))
    lo, hi = min(a, b), max(a, b)
    p.add("generate_range", "[generate_range(%d, %d), [(%d)..(%d)], generate_range(%d, %d)]" % (lo, hi, lo, hi, hi + 1, lo),
          rv([rvi(list(range(lo, hi + 1))), rvi(list(range(lo, hi + 1))), rvi([])]))
    p.add("input-intact", "[v, w]", rv([rvi(L), rvi(W)]))
    return p


def _cmod(a, m):
    """C++ remainder (sign of dividend)"""
    r = abs(a) % m
    return -r if a < 0 else r


def _cmod_fold(L):
    acc = 1
    for x in L:
        acc = _cmod(acc * 2 + x, 1000)
    return acc


def string_plan(s, rng):
    p = Plan()
    ws = " \t\r\n"
    p.add("init", "var s = %s; s.size()" % chai_str(s), "unsigned long:%d" % len(s))
    p.add("ltrim", "[s.ltrim(), s]", rv([rs(s.lstrip(ws)), rs(s)]))
    p.add("rtrim", "[s.rtrim(), s]", rv([rs(s.rstrip(ws)), rs(s)]))
    p.add("trim", "[s.trim(), s]", rv([rs(s.strip(ws)), rs(s)]))
    for sub in rng.sample(["a", "b", "ab", " ", "", "ba", "x"], 3):
        def npos(r):
            return "unsigned long:%d" % (2**64 - 1 if r < 0 else r)
        p.add("find", "s.find(%s)" % chai_str(sub), npos(s.find(sub)))
        p.add("rfind", "s.rfind(%s)" % chai_str(sub), npos(s.rfind(sub)))
        fo = [i for i, c in enumerate(s) if c in sub]
        fno = [i for i, c in enumerate(s) if c not in sub]
        p.add("find_first_of", "s.find_first_of(%s)" % chai_str(sub), npos(fo[0] if fo else -1))
        p.add("find_last_of", "s.find_last_of(%s)" % chai_str(sub), npos(fo[-1] if fo else -1))
        p.add("find_first_not_of", "s.find_first_not_of(%s)" % chai_str(sub), npos(fno[0] if fno else -1))
        p.add("find_last_not_of", "s.find_last_not_of(%s)" % chai_str(sub), npos(fno[-1] if fno else -1))
    p.add("reverse-string", "[reverse(s), s]", rv([rs(s[::-1]), rs(s)]))
    p.add("filter-string", "[filter(s, fun(c) { c != ' ' }), s]", rv([rs(s.replace(" ", "")), rs(s)]))
    p.add("map-string", "map(s, fun(c) { c == 'a' ? 'b' : c })", rs(s.replace("a", "b")))
    for m in rng.sample([-1, 0, 1, len(s), len(s) + 1], 2):
        p.add("take-string", "take(s, %d)" % m, rs(s[:max(0, m)]))
        p.add("drop-string", "drop(s, %d)" % m, rs(s[max(0, m):]))
    p.add("concat-string", 'concat(s, "xy")', rs(s + "xy"))
    p.add("join-strings", 'join([s, "q", s], "-")', rs(s + "-q-" + s))
    p.add("any-all-string", "[any_of(s, fun(c) { c == 'a' }), all_of(s, fun(c) { c == 'a' })]", rv([rb("a" in s), rb(all(c == "a" for c in s))]))
    p.add("to_string-string", "[to_string(s), to_string([s])]", rv([rs(s), rs("[" + s + "]")]))
    p.add("input-intact", "s", rs(s))
    return p


def map_plan(keys, rng):
    p = Plan()
    d = {k: rng.randrange(-3, 4) for k in keys}
    items = sorted(d.items())
    src = "[" + ", ".join('"%s": %d' % kv for kv in items) + "]" if items else "Map()"
    p.add("init", "var m = %s; m.size()" % src, "unsigned long:%d" % len(d))
    p.add("for_each-map", "var ks = []; var vs = []; for_each(m, fun[ks, vs](kv) { ks.push_back(kv.first); vs.push_back(kv.second) }); [ks, vs]",
          rv([rv([rs(k) for k, _ in items]), rvi([v for _, v in items])]))
    p.add("to_string-map", "to_string(m)", rs("[" + ", ".join("<%s, %d>" % kv for kv in items) + "]"))
    p.add("any_of-map", "any_of(m, fun(kv) { kv.second > 0 })", rb(any(v > 0 for _, v in items)))
    p.add("foldl-map", "foldl(m, fun(kv, acc) { acc + kv.second }, 0)", ri(sum(d.values())))
    p.add("join-map", 'join(m, ";")', rs(";".join("<%s, %d>" % kv for kv in items)))
    p.add("input-intact", "m.size()", "unsigned long:%d" % len(d))
    return p


def run(ctx, tier, seed, scale=1.0):
    rng = random.Random(seed)
    quick = tier == "quick"
    exe = vlib.build("asan", ["seq_eval"])["seq_eval"]
    plans = []
    vals = [-3, -2, -1, 0, 1, 2, 3]
    maxlen = 4
    full_len = 3 if quick else 4
    for L in range(0, maxlen + 1):
        allv = list(itertools.product(vals, repeat=L))
        if L > full_len:
            allv = rng.sample(allv, 700)
        for t in allv:
            W = [rng.randrange(-3, 4) for _ in range(rng.choice([0, 1, L, L + 1, 3]))]
            plans.append(("int-vector", list(t), int_vector_plan(list(t), rng, W)))
    nrand = int((400 if quick else 30000) * scale)
    for _ in range(nrand):
        L = [rng.randrange(-9, 10) for _ in range(rng.randrange(5, 13))]
        W = [rng.randrange(-9, 10) for _ in range(rng.randrange(0, 14))]
        plans.append(("int-vector", L, int_vector_plan(L, rng, W)))
    alpha = " \tab\n"
    strs = set()
    for L in range(0, 4 if quick else 5):
        for t in itertools.product(alpha, repeat=L):
            strs.add("".join(t))
    for _ in range(int((300 if quick else 5000) * scale)):
        strs.add("".join(rng.choice(" \t\r\nabx") for _ in range(rng.randrange(4, 12))))
    for s in sorted(strs):
        plans.append(("string", s, string_plan(s, rng)))
    for ks in itertools.chain.from_iterable(itertools.combinations(["a", "b", "c", "dd"], r) for r in range(0, 5)):
        plans.append(("map", list(ks), map_plan(list(ks), rng)))
    cases = [["SEQ", ""] + [s for s, _, _ in p.stmts] for _, _, p in plans]
    res, hf = vlib.run_cases(exe, cases, "c17", timeout_s=120, batch=16)
    ctx.harness_failures += hf
    vlib.judge_crashes(ctx, exe, cases, res, "c17", timeout_s=120, describe=lambda k: {"input": plans[k][1], "statements": cases[k][2:]})
    ncalls = 0
    for (kind, inp, p), c, r in zip(plans, cases, res):
        if r.status != "ok":
            continue
        ctx.nontriv(kind + repr(inp))
        for (src, want, tag), rec in zip(p.stmts, r.fields):
            ncalls += 1
            ctx.evaluations += 1
            q = rec.split(US)
            cls, val, what = q[0], q[1], q[2]
            ctx.count("fn:" + tag)
            wit = {"input": inp, "statement": src, "expected": want if want is not None else "an error", "got": "%s %s %s" % (cls, val, what[:160])}
            if want is None:
                if cls == "ok":
                    ctx.violation("no-error:%s" % tag, wit)
            elif cls != "ok":
                ctx.violation("unexpected-error:%s" % tag, wit)
            elif val != want:
                ctx.violation("wrong-result:%s" % tag, wit)
        if len(ctx.samples) < 3 and rng.random() < 0.01:
            ctx.sample({"kind": kind, "input": inp, "statements": [s for s, _, _ in p.stmts[:6]]})
    ctx.sample({"kind": plans[5][0], "input": plans[5][1], "statements": [s for s, _, _ in plans[5][2].stmts[:5]]})
    ctx.exhaustive = False
    ctx.rule = ("one case = one input container (all int vectors of length 0..3 (quick) / 0..4 (thorough) over {-3..3} enumerated completely, 700 of length 4 sampled in quick, plus random longer ones, all "
                "strings of length 0..3(4) over {space,tab,a,b,newline} plus random, all key subsets for maps) on which every prelude function is called; "
                "evaluations counts individual calls; each call yields [result, callback log, input afterwards] compared with a python specification; "
                "distinct by input container")
    ctx.assumptions += ["foldl calls func(element, accumulator) and reduce calls func(accumulator, element) - the implementation's evident convention "
                        "(sum/product rely on it); a change of that order would be reported",
                        "sum/product of ints are double (0.0/1.0 seeds) as written in the prelude"]
    ctx.count("sub-space-enumerated-completely:int-vectors-len<=%d-over-7-values" % full_len, sum(7**i for i in range(full_len + 1)))
