"""C15 - get_state / set_state restore the global environment exactly.
Histories (<= 30 steps) of {def function / typed overload, global, class, C++ function, C++ type, use(file), thread-local variable,
get_state, set_state(any earlier snapshot)} with name re-use after restore; after every step the whole environment (existence and call
results of every function and overload, globals, classes, type names, function_exists, whether use() re-evaluates, locals untouched) is
probed against a dictionary model; at the end every snapshot is restored once more ('saved states stay valid')."""
import copy
import os
import random
import shutil

import vlib

LEVEL = "exploration"
US = "\x1f"
FN = ["fa", "fb", "fc"]
GL = ["GA", "GB"]
KL = ["KA", "KB"]
CP = ["ca", "cb"]
LOC = ["la", "lb"]
NTYPES = 3


class Env:
    def __init__(self):
        self.funcs = {}      # name -> {sig: k}   sig in untyped|int|string|bool
        self.globals = {}
        self.classes = {}
        self.cpps = {}
        self.types = set()
        self.used = False

    def probes(self, locals_):
        out = []
        for n in FN:
            ov = self.funcs.get(n, {})
            out.append(("function_exists(\"%s\")" % n, "bool:true" if ov else "bool:false"))
            for sig, arg, conv in (("int", "1", lambda k: "int:%d" % (1 + k)), ("string", '"s"', lambda k: "string:s%d" % k), ("bool", "true", lambda k: "int:%d" % (k + 7))):
                if sig in ov:
                    out.append(("%s(%s)" % (n, arg), conv(ov[sig])))
                elif "untyped" in ov:
                    out.append(("%s(%s)" % (n, arg), "int:%d" % ov["untyped"]))
                else:
                    out.append(("%s(%s)" % (n, arg), "!ERR"))
        for n in GL:
            out.append((n, "int:%d" % self.globals[n] if n in self.globals else "!ERR"))
        for n in KL:
            out.append(("%s().get()" % n, "int:%d" % self.classes[n] if n in self.classes else "!ERR"))
        for n in CP:
            out.append(("%s(1)" % n, "int:%d" % (1 + self.cpps[n]) if n in self.cpps else "!ERR"))
            out.append(("function_exists(\"%s\")" % n, "bool:true" if n in self.cpps else "bool:false"))
        for t in range(NTYPES):
            out.append(("UT%d_type.is_type_undef()" % t, "bool:false" if t in self.types else "!ERR"))
            # the name table consulted by type("...") and by typed parameters is a structure of its own
            out.append(("type(\"UT%d\").is_type_undef()" % t, "bool:false" if t in self.types else "!ERR"))
        for n in LOC:
            out.append((n, "int:%d" % locals_[n] if n in locals_ else "!ERR"))
        return out


def gen_history(rng):
    env = Env()
    locals_ = {}
    snaps = {}
    ops = []
    usecount = 0
    nsnap = 0
    val = 0

    def add_probes(all_=False):
        ps = env.probes(locals_)
        if not all_:
            ps = rng.sample(ps, min(len(ps), 12))
        for e, w in ps:
            ops.append(US.join(["probe", e, w]))
        ops.append(US.join(["usecount", str(usecount)]))

    for step in range(rng.randrange(6, 30)):
        k = rng.random()
        val += rng.randrange(1, 50)
        if k < 0.2:
            n = rng.choice(FN)
            ov = env.funcs.setdefault(n, {})
            sig = rng.choice(["untyped", "int", "string", "bool"])
            if sig in ov:
                continue
            # an untyped overload next to typed ones is legal; its body returns a constant so that dispatch is observable
            ov[sig] = val
            src = {"untyped": "def %s(x) { %d }" % (n, val), "int": "def %s(int x) { x + %d }" % (n, val),
                   "string": "def %s(string x) { x + \"%d\" }" % (n, val), "bool": "def %s(bool x) { %d }" % (n, val + 7)}[sig]
            ops.append(US.join(["eval", src]))
        elif k < 0.3:
            n = rng.choice(GL)
            if n in env.globals:
                continue
            env.globals[n] = val
            ops.append(US.join(["eval", "global %s = %d" % (n, val)]))
        elif k < 0.4:
            n = rng.choice(KL)
            if n in env.classes:
                continue
            env.classes[n] = val
            ops.append(US.join(["eval", "class %s { def %s() { }; def get() { %d } }" % (n, n, val)]))
        elif k < 0.5:
            n = rng.choice(CP)
            if n in env.cpps:
                continue
            env.cpps[n] = val
            ops.append(US.join(["addfn", n, str(val)]))
        elif k < 0.56:
            t = rng.randrange(NTYPES)
            if t in env.types:
                continue
            env.types.add(t)
            ops.append(US.join(["addtype", str(t)]))
        elif k < 0.64:
            if not env.used:
                env.used = True
                usecount += 1
            ops.append(US.join(["use", "u.chai"]))
        elif k < 0.70:
            n = rng.choice(LOC)
            if n in locals_:
                continue
            locals_[n] = val
            ops.append(US.join(["eval", "var %s = %d" % (n, val)]))
        elif k < 0.84:
            nsnap += 1
            snaps[str(nsnap)] = copy.deepcopy(env)
            ops.append(US.join(["snap", str(nsnap)]))
        else:
            if not snaps:
                continue
            sid = rng.choice(list(snaps))
            env = copy.deepcopy(snaps[sid])
            ops.append(US.join(["restore", sid]))
        add_probes(all_=(rng.random() < 0.3))
    # saved states stay valid: restore every snapshot once more, oldest last
    for sid in sorted(snaps, key=int, reverse=True):
        env = copy.deepcopy(snaps[sid])
        ops.append(US.join(["restore", sid]))
        add_probes(all_=True)
    return ops, len(snaps)


def run(ctx, tier, seed, scale=1.0):
    rng = random.Random(seed)
    quick = tier == "quick"
    exe = vlib.build("asan", ["c15_state"])["c15_state"]
    usedir = os.path.join(vlib.BUILD, "scratch", "c15use-%d" % os.getpid())
    shutil.rmtree(usedir, ignore_errors=True)
    os.makedirs(usedir)
    with open(os.path.join(usedir, "u.chai"), "w") as fh:
        fh.write("bump()\n")
    try:
        n = int((700 if quick else 100000) * scale)
        hist = [gen_history(rng) for _ in range(n)]
        cases = [["S", usedir] + h for h, _ in hist]
        res, hf = vlib.run_cases(exe, cases, "c15", timeout_s=300, batch=8)
        ctx.harness_failures += hf
        vlib.judge_crashes(ctx, exe, cases, res, "c15", timeout_s=300, describe=lambda k: {"history": [o.replace(US, " | ") for o in hist[k][0]]})
        for (h, nsn), r in zip(hist, res):
            ctx.evaluations += 1
            if r.status != "ok":
                continue
            f = r.fields
            ctx.count("probes", int(f[0]))
            ctx.count("snapshots", nsn)
            ctx.count("restores", sum(1 for o in h if o.startswith("restore")))
            if nsn >= 1:
                ctx.nontriv("|".join(h))
            for fail in f[1:]:
                p = fail.split("|")
                step = p[1]
                what = ("function" if any(("%s(" % n) in step or ('"%s"' % n) in step for n in FN) else
                        "global" if any(n in step for n in GL) else "class" if any(n in step for n in KL) else
                        "c++function" if any(n + "(" in step or ('"%s"' % n) in step for n in CP) else "type" if "UT" in step else
                        "local" if any(n in step for n in LOC) else "used-file")
                ctx.violation("%s:%s" % (p[0], what), {"history": [o.replace(US, " | ") for o in h if not o.startswith("probe") and not o.startswith("usecount")],
                                                      "failed": p[1:]})
            if len(ctx.samples) < 3 and rng.random() < 0.01:
                ctx.sample({"history": [o.replace(US, " | ") for o in h if not o.startswith("probe")][:30]})
        ctx.min_events["restores"] = 500
        if not ctx.samples:
            ctx.sample({"history": [o.replace(US, " | ") for o in hist[0][0]][:30]})
    finally:
        shutil.rmtree(usedir, ignore_errors=True)
    ctx.rule = ("one case = one history of 6-29 steps on one engine (definitions of functions with typed/untyped overloads, globals, classes, C++ "
                "functions and types, use(file), thread locals, get_state, set_state(any earlier snapshot), name re-use after restore) + a final pass "
                "restoring every snapshot again; probed after every step against a dictionary model; non-trivial iff >= 1 snapshot; distinct by op list")
    ctx.assumptions += ["the model tracks bindings (which names/overloads exist), not mutations of a global's value: a snapshot shares global objects with the "
                        "engine by design"]
