"""C02 - the optimizer never changes what a program does.
Differential oracle: every generated program runs on two fresh engines in one ASan process - default optimizer pipeline vs an
identity optimizer (the real parser/evaluator with no tree rewriting) - and printed output, final value+type, error class+reason
and the effects on harness-owned C++ objects (tick log, Counter) are compared. A case counts as non-trivial only if the two
parse trees differ (measured); the census of optimised node kinds is reported."""
import random

import gen
import printer
import vlib

LEVEL = "exploration"

PROFILE = {"w_switch": 0, "w_try": 0, "objects": False, "interp": False, "top_min": 5, "top_max": 16, "unguarded_div": 0.05}


def templates(rng, n):
    """hand-shaped statements aimed at each pass's trigger (parametrised, seeded)"""
    k = rng.randrange(3, 7)
    a, b, c = rng.randrange(0, 3), rng.randrange(1, 9), rng.randrange(0, 100)
    cmp_ = rng.choice(["<", "<", "<=", "!="])
    step = rng.choice(["++i{n}", "++i{n}", "++i{n}", "i{n} += 1", "i{n} = i{n} + 1"])
    lo = rng.choice(["0", "0", "1", "0l", "0u", "a{n}"])
    hi = rng.choice([str(k), str(k), "%dl" % k, "%du" % k, "b{n}", "%d + 1" % (k - 1)])
    t = [
        # closures created in a loop, called after it (loop variable captured)
        "var a{n} = {a}; var b{n} = {k}\nvar fs{n} = []\nfor (var i{n} = {lo}; i{n} {cmp} {hi}; {step}) {{\n  fs{n}.push_back(fun[i{n}]() {{ i{n} * 10 + {b} }})\n}}\n"
        "for (f : fs{n}) {{ print(f()) }}\nprint(fs{n}.size())",
        # closure capturing the loop variable by an alias
        "var gs{n} = []\nfor (var i{n} = 0; i{n} < {k}; ++i{n}) {{\n  var &al{n} = i{n}\n  gs{n}.push_back(fun[al{n}]() {{ al{n} }})\n}}\nprint(gs{n}[0]())\nprint(gs{n}[{km1}]())",
        # loops that only resemble the canonical counted loop: the condition tests another variable / the step moves another variable /
        # the bounds are variables or non-int constants / the comparison is not '<'
        "var other{n} = 0\nvar cnt{n} = 0\nfor (var i{n} = 0; other{n} < {k}; ++i{n}) {{\n  other{n} += 2\n  ++cnt{n}\n}}\nprint(cnt{n})\nprint(other{n})",
        "var j{n} = 0\nvar cnt{n} = 0\nfor (var i{n} = 0; i{n} < {k}; ++j{n}) {{\n  i{n} += 1\n  ++cnt{n}\n  if (cnt{n} > 20) {{ break }}\n}}\nprint(cnt{n})\nprint(j{n})",
        "var lim{n} = {k}\nvar cnt{n} = 0\nfor (var i{n} = 0; i{n} < lim{n}; ++i{n}) {{\n  if (i{n} == 1) {{ lim{n} = lim{n} - 1 }}\n  ++cnt{n}\n}}\nprint(cnt{n})",
        "var cnt{n} = 0\nfor (var i{n} = {k}; i{n} > 0; --i{n}) {{ ++cnt{n} }}\nfor (var i{n} = 0; i{n} <= {k}; ++i{n}) {{ ++cnt{n} }}\nfor (var i{n} = 0; {k} > i{n}; ++i{n}) {{ ++cnt{n} }}\nprint(cnt{n})",
        "var cnt{n} = 0\nfor (var i{n} = 0.0; i{n} < {k}; ++i{n}) {{ ++cnt{n} }}\nfor (var i{n} = 0; i{n} < {k}.5; ++i{n}) {{ ++cnt{n} }}\nfor (auto i{n} = 0; i{n} < {k}; ++i{n}) {{ ++cnt{n} }}\nprint(cnt{n})",
        # loop variable re-pointed to another int inside the body (the counted loop must follow it)
        "var cnt{n} = 0\nfor (var i{n} = 0; i{n} < {k}; ++i{n}) {{\n  var j{n} = {a}\n  if (cnt{n} == 1) {{ i{n} := j{n} }}\n  ++cnt{n}\n  if (cnt{n} > 20) {{ break }}\n}}\nprint(cnt{n})",
        "def rp{n}() {{\n  var seen = []\n  for (var i{n} = 0; i{n} < {k}; ++i{n}) {{\n    var j{n} = {k} - 2\n    i{n} := j{n}\n    seen.push_back(i{n})\n    if (seen.size() > 20) {{ break }}\n  }}\n  return seen\n}}\nprint(rp{n}())\nprint(rp{n}())",
        # counter modified in the body
        "for (var i{n} = 0; i{n} < {k}; ++i{n}) {{\n  if (i{n} == 1) {{ i{n} += 1 }}\n  print(i{n})\n}}",
        # body shadows the counter / declares variables / breaks / continues
        "for (var i{n} = 0; i{n} < {k}; ++i{n}) {{\n  if (i{n} == {a}) {{ continue }}\n  var i{n} = 100 + {c}\n  print(i{n})\n  if (i{n} > 150) {{ break }}\n}}",
        # reference declared in a block, value read after the block
        "var x{n} = {c}\n{{\n  var &r{n} = x{n}\n  r{n} = r{n} + {b}\n}}\nprint(x{n})",
        # declaration-free block / scopeless block with assignments
        "var y{n} = {a}\n{{\n  y{n} = y{n} + {b}\n  {{ y{n} = y{n} * 2 }}\n}}\nprint(y{n})",
        # block scoping must still hide inner declarations
        "var z{n} = 1\n{{\n  var z{n} = {c}\n  print(z{n})\n}}\nprint(z{n})",
        # constant conditions
        "if (true) {{ print({a}) }} else {{ print({b}) }}\nif (false) {{ print({a}) }} else {{ print({b}) }}\nif (false) {{ print({c}) }}\nprint(if_done{n}())".replace("if_done{n}()", "{c}"),
        "var t{n} = true ? {a} : {b}\nvar u{n} = false ? {a} : {b}\nprint(t{n} + u{n})",
        # folding, including folds that fail at parse time
        "print({a} + {b} * {c} - ({b} << 2) % 7)\nprint(1.5 * {b} + {a})\nprint({c} > {b} && {a} < {b} || false)\nprint(-{b} + +{a})\nprint(~{c} & 255)",
        "try {{ print({c} / 0) }} catch (e{n}) {{ print(\"div\") }}\ntry {{ print({c} % 0) }} catch (e{n}) {{ print(\"mod\") }}",
        "var q{n} = {c}\nprint(q{n} + {a})\nprint(q{n} * {b})\nprint(q{n} / {b})\nprint(q{n} < {c})\nprint(q{n} == {c})\nprint(q{n} - 0)",
        "try {{ var w{n} = {c}; print(w{n} / 0) }} catch (e{n}) {{ print(\"rdiv\") }}",
        # trailing and non-trailing returns
        "def ret{n}(x) {{\n  if (x > {a}) {{ return x * 2 }}\n  print(\"after\")\n  return x + {b}\n}}\nprint(ret{n}({a}))\nprint(ret{n}({b} + {a}))",
        "def last{n}(x) {{\n  var t = x + {b}\n  t\n}}\ndef lastr{n}(x) {{\n  return x + {b}\n}}\nprint(last{n}({a}) + lastr{n}({c}))",
        "var lam{n} = fun(x) {{ return x + {b} }}\nvar lam2{n} = fun(x) {{ x; x + {b} }}\nprint(lam{n}({a}) == lam2{n}({a}))",
        # statements that are bare constants / calls with unused results
        "{a}\n\"s\"\ntrue\ntick({c})\n{{ tick({b}); {a}; tick({a}) }}\nprint(tick({c}))",
        "ctr.inc({b})\n{{ ctr.inc({a}) }}\nfor (var i{n} = 0; i{n} < {k}; ++i{n}) {{ ctr.inc(i{n}) }}\nprint(ctr.get())",
        # a bare identifier statement that does not resolve must still raise
        "try {{\n  {{\n    no_such_name_{n}\n    print({a})\n  }}\n}} catch (e{n}) {{ print(\"unresolved\") }}",
        "def un{n}() {{\n  no_such_fn_name_{n}\n  {c}\n}}\ntry {{ print(un{n}()) }} catch (e{n}) {{ print(\"unresolved2\") }}",
        # var decl fusion
        "var d{n} = [{a}, {b}]\nvar e{n} = d{n}\ne{n}.push_back({c})\nprint(d{n}.size() + e{n}.size())\nauto f{n} = \"s\" + \"t\"\nprint(f{n})",
        "var h{n}\nh{n} = {c}\nprint(h{n})",
        # while loops and nested canonical loops
        "var s{n} = 0\nfor (var i{n} = 0; i{n} < {k}; ++i{n}) {{\n  for (var j{n} = i{n}; j{n} < {k}; ++j{n}) {{ s{n} += j{n} }}\n}}\nprint(s{n})",
        "var m{n} = 0\nwhile (m{n} < {k}) {{ ++m{n}; if (m{n} == 2) {{ continue }}; print(m{n}) }}",
        # ranged for
        "var acc{n} = 0\nfor (e : [{a}, {b}, {c}]) {{ acc{n} += e }}\nprint(acc{n})\nfor (e : [{a}..{k}]) {{ tick(e) }}",
    ]
    return t, dict(n=n, a=a, b=b, c=c, k=k, km1=k - 1, cmp=cmp_, step=step, lo=lo, hi=hi)


def gen_program(rng, idx):
    g = gen.Gen(rng, PROFILE)
    g.funcs["tick"] = ([gen.INT], gen.INT, 1, False, [False])
    prog = g.program()
    tl, params = templates(rng, idx % 1000)
    for _ in range(rng.randrange(1, 4)):
        t = rng.choice(tl)
        params["n"] = rng.randrange(10000, 99999)
        p2 = dict(params)
        for key in ("step", "lo", "hi"):
            p2[key] = params[key].format(n=params["n"])
        src = t.format(**p2)
        prog.insert(rng.randrange(0, len(prog)), ("raw", src))
    return printer.Printer().program(prog)


NAMES = ["class", "result", "reason", "stdout", "effects"]
KNOWN_PROBES = [("optimised-differs:probe:folded-conversion-result-is-const", "print(++int(5))"),
                ("optimised-differs:probe:folded-conversion-result-is-const", "print(--double(2))"),
                ("optimised-differs:probe:folded-conversion-result-is-const", "def g(v) { ++v }\nprint(g(int(3)))")]


def run(ctx, tier, seed, scale=1.0):
    rng = random.Random(seed)
    quick = tier == "quick"
    exe = vlib.build("asan", ["c02_diff"])["c02_diff"]
    n = int((2500 if quick else 300000) * scale)
    srcs = [gen_program(rng, i) for i in range(n)]
    cases = [["D", s] for s in srcs]
    res, hf = vlib.run_cases(exe, cases, "c02", timeout_s=120, batch=16)
    ctx.harness_failures += hf
    vlib.judge_crashes(ctx, exe, cases, res, "c02", timeout_s=120, describe=lambda k: {"program": srcs[k]})
    census_tot = {}
    for s, r in zip(srcs, res):
        ctx.evaluations += 1
        if r.status != "ok":
            continue
        f = r.fields
        a, b, tree, census = f[:5], f[5:10], f[10], f[11]
        ctx.count("outcome:" + a[0])
        if tree == "different-tree":
            ctx.nontriv(s)
        else:
            ctx.count("same-tree (trivial for this property)")
        for kv in census.split(";"):
            if kv:
                k, v = kv.split("=")
                o, u = v.split("/")
                census_tot.setdefault(k, [0, 0])
                census_tot[k][0] += int(o)
                census_tot[k][1] += int(u)
        diff = [nm for nm, x, y in zip(NAMES, a, b) if x != y]
        if diff:
            site = _site(s, a, b)
            ctx.violation("optimised-differs:%s:%s" % (diff[0], site),
                          {"program": s, "optimised": dict(zip(NAMES, a)), "unoptimised": dict(zip(NAMES, b))})
        if len(ctx.samples) < 3 and rng.random() < 0.001:
            ctx.sample({"program": s[:1500], "outcome": a[0], "result": a[1]})
    # recorded finding (known_findings.txt): Constant_Fold turns int(5) / double(2) into a *const* constant, the unoptimised call yields a fresh
    # mutable temporary. Each probe runs alone; the key names the probe, any other difference is still reported under its own key.
    pc = [["D", prog] for _, prog in KNOWN_PROBES]
    pres, _ = vlib.run_cases(exe, pc, "c02k", timeout_s=60, batch=1)
    for (key, prog), r in zip(KNOWN_PROBES, pres):
        ctx.evaluations += 1
        if r.status == "ok" and r.fields[:5] != r.fields[5:10]:
            ctx.violation(key, {"program": prog, "optimised": dict(zip(NAMES, r.fields[:5])), "unoptimised": dict(zip(NAMES, r.fields[5:10]))})
        else:
            ctx.count("known-probe-no-longer-differs")
    ctx.counters["node-census optimised/unoptimised"] = {k: "%d/%d" % tuple(v) for k, v in census_tot.items()}
    for k in ("(Compiled)", "(Scopeless_Block)", "(Assign_Decl)"):
        ctx.counters["optimised-nodes:" + k] = census_tot.get(k, [0, 0])[0]
        ctx.min_events["optimised-nodes:" + k] = 10
    if not ctx.samples:
        ctx.sample({"program": srcs[0][:1500]})
    ctx.rule = ("programs from the chailang generator restricted to C02's construct list (constants, blocks, if/ternary, for/while/ranged-for, "
                "functions, lambdas with captures, return, var/auto/reference declarations, unused call results) plus 1-3 parametrised templates "
                "aimed at each optimizer pass; a program is non-trivial iff the optimised and unoptimised parse trees differ (measured with "
                "AST_Node::to_string); distinct by source text")
    ctx.assumptions += ["programs using AST reflection or dynamic eval() are not generated (outside the property's quantifier)",
                        "error *reason* strings are compared because both sides run the same engine code"]


def _site(src, a, b):
    """coarse call-site discriminator for known-findings matching"""
    if a[0] != b[0]:
        return "%s-vs-%s" % (a[0], b[0])
    return "value"
