"""C16 - literals denote what they denote in C++.
Oracles independent of the parser: python big ints + the [lex.icon] typing table; glibc strtof/strtod/strtold (inside the
harness) for floats; a python decoder of C++ escape sequences; keyword-colliding identifiers computed at check time by a
meet-in-the-middle inversion of 32-bit FNV-1a and confirmed with the engine's own utility::hash."""
import itertools
import random

import vlib

LEVEL = "exploration"
ULP_TOLERANCE = 8      # "within a few units in the last place"

INT_MAX = {"int": 2**31 - 1, "unsigned int": 2**32 - 1, "long": 2**63 - 1, "unsigned long": 2**64 - 1, "long long": 2**63 - 1,
           "unsigned long long": 2**64 - 1}


def int_type(value, base, suffix):
    s = suffix.lower()
    u = "u" in s
    ll = s.count("l") == 2
    l = s.count("l") == 1
    dec = base == 10
    if u and ll:
        seq = ["unsigned long long"]
    elif u and l:
        seq = ["unsigned long", "unsigned long long"]
    elif u:
        seq = ["unsigned int", "unsigned long", "unsigned long long"]
    elif ll:
        seq = ["long long"] if dec else ["long long", "unsigned long long"]
    elif l:
        seq = ["long", "long long"] if dec else ["long", "unsigned long", "long long", "unsigned long long"]
    else:
        seq = ["int", "long", "long long"] if dec else ["int", "unsigned int", "long", "unsigned long", "long long", "unsigned long long"]
    for t in seq:
        if value <= INT_MAX[t]:
            return t
    return None


def spell_int(value, base, suffix, rng):
    if base == 10:
        d = str(value)
    elif base == 16:
        d = rng.choice(("0x", "0X")) + (("%x" if rng.random() < 0.5 else "%X") % value)
    elif base == 8:
        d = "0" + ("%o" % value)
    else:
        d = rng.choice(("0b", "0B")) + bin(value)[2:]
    return d + suffix


SUFFIXES = ["", "u", "U", "l", "L", "ul", "uL", "Ul", "UL", "lu", "LU", "Lu", "ll", "LL", "ull", "ULL", "uLL", "llu", "LLU", "llU"]


# ---------------------------------------------------------------- escapes
SIMPLE = {"'": 0x27, '"': 0x22, "?": 0x3f, "\\": 0x5c, "a": 7, "b": 8, "f": 12, "n": 10, "r": 13, "t": 9, "v": 11, "$": 0x24}


def utf8(cp):
    return chr(cp).encode("utf-8", "surrogatepass")


def decode(body, interpolation):
    """C++ escape decoding of the characters between the quotes (bytes). Returns bytes or None if malformed.
    With interpolation=True, '${expr}' must not occur (the generator never emits it for this oracle) and a '$' not followed by
    '{' is a plain '$'."""
    out = bytearray()
    i, n = 0, len(body)
    while i < n:
        c = body[i]
        if c != 0x5c:
            out.append(c)
            i += 1
            continue
        i += 1
        if i >= n:
            return None
        e = chr(body[i])
        if e in SIMPLE:
            out.append(SIMPLE[e])
            i += 1
        elif e in "01234567":
            j = i
            while j < n and j - i < 3 and chr(body[j]) in "01234567":
                j += 1
            v = int(body[i:j], 8)
            if v > 255:
                return None
            out.append(v)
            i = j
        elif e == "x":
            j = i + 1
            while j < n and j - (i + 1) < 2 and chr(body[j]) in "0123456789abcdefABCDEF":
                j += 1
            if j == i + 1:
                return None
            out.append(int(body[i + 1:j], 16))
            i = j
        elif e in "uU":
            k = 4 if e == "u" else 8
            h = body[i + 1:i + 1 + k]
            if len(h) != k or any(chr(x) not in "0123456789abcdefABCDEF" for x in h):
                return None
            cp = int(h, 16)
            if 0xd800 <= cp <= 0xdfff or cp > 0x10ffff:
                return None
            out += utf8(cp)
            i += 1 + k
        else:
            return None
    return bytes(out)


def fnv1a(b):
    h = 0x811c9dc5
    for c in b:
        h = ((h ^ c) * 0x01000193) & 0xffffffff
    return h


KEYWORDS = ["true", "false", "Infinity", "NaN", "__LINE__", "__FILE__", "__FUNC__", "__CLASS__", "_"]
RESERVED = ["def", "fun", "while", "for", "if", "else", "&&", "||", ",", "auto", "return", "break", "class", "attr", "var", "global",
            "GLOBAL"]


def collisions(targets, per_target, rng):
    """identifiers [A-Za-z][A-Za-z0-9_]{5} whose FNV-1a hash equals that of a target word (meet in the middle)."""
    first = "abcdefghijklmnopqrstuvwxyzABCDEFGHIJKLMNOPQRSTUVWXYZ"
    alnum = first + "0123456789_"
    pinv = pow(0x01000193, -1, 2**32)
    table = {}
    for a in first:
        ha = ((0x811c9dc5 ^ ord(a)) * 0x01000193) & 0xffffffff
        for b in alnum:
            hb = ((ha ^ ord(b)) * 0x01000193) & 0xffffffff
            for c in alnum:
                table[((hb ^ ord(c)) * 0x01000193) & 0xffffffff] = a + b + c
    out = {}
    suffixes = [x + y + z for x in alnum for y in alnum for z in alnum]
    for t in targets:
        th = fnv1a(t.encode())
        found = []
        order = suffixes[:]
        rng.shuffle(order)
        for suf in order:
            h = th
            for ch in reversed(suf):
                h = ((h * pinv) & 0xffffffff) ^ ord(ch)
            p = table.get(h)
            if p is not None and p + suf != t:
                found.append(p + suf)
                if len(found) >= per_target:
                    break
        out[t] = found
    return out


def run(ctx, tier, seed, scale=1.0):
    rng = random.Random(seed)
    quick = tier == "quick"
    exe = vlib.build("asan", ["c16_lit"])["c16_lit"]
    cases, meta = [], []

    # ---- integers
    vals = set()
    for k in (7, 8, 15, 16, 31, 32, 63, 64):
        for d in (-2, -1, 0, 1, 2):
            v = 2**k + d
            if 0 <= v < 2**64 + 3:
                vals.add(v)
    vals |= {0, 1, 7, 8, 9, 10, 63, 64, 100, 255, 256, 4095, 65535, 65536, 10**9, 10**18, 10**19}
    nrand = int((300 if quick else 20000) * scale)
    for _ in range(nrand):
        vals.add(rng.getrandbits(rng.choice((8, 16, 31, 32, 33, 62, 63, 64))))
    for v in sorted(vals):
        for base in (2, 8, 10, 16):
            for suf in (SUFFIXES if (v < 2**10 or rng.random() < (0.35 if quick else 1.0) or any(abs(v - 2**k) <= 1 for k in (31, 32, 63, 64)))
                        else rng.sample(SUFFIXES, 3)):
                t = int_type(v, base, suf)
                if t is None:
                    ctx.count("int-literals-no-c++-type(skipped)")
                    continue
                lit = spell_int(v, base, suf, rng)
                cases.append(["E", lit])
                meta.append(("int", lit, t, v))

    # ---- malformed numeric literals: digits that do not belong to the base, repeated / ill-formed suffixes, an exponent marker without digits.
    # None of them may evaluate to a value (any value would mean part of the spelling was ignored).
    bad_nums = ["08", "09", "089", "0128", "019", "07778", "1uu", "1UU", "1uU", "7lll", "7LLL", "1lul", "1ulu", "1llul", "3ullu", "0x1Fuu", "0x10lll", "0b101uu",
                "0b11lul", "017uu", "1.5ff", "1.5FF", "1.5lf", "1.5fl", "1.5ll", "2.0e3ff", "1e", "1E", "1e+", "1e-", "1.5e", "1.5E+", "1.5e-", "0.5e", "12e",
                "7.25e+", "1e5ff", "1.0lL"]
    for _ in range(int((60 if quick else 3000) * scale)):
        k = rng.randrange(5)
        if k == 0:      # octal with a digit 8/9 somewhere
            ds = [rng.choice("01234567") for _ in range(rng.randrange(1, 8))]
            ds.insert(rng.randrange(0, len(ds) + 1), rng.choice("89"))
            bad_nums.append("0" + "".join(ds) + rng.choice(["", "", "u", "l"]))
        elif k == 1:    # repeated u / three l / l-u-l
            core = rng.choice([str(rng.randrange(0, 10**6)), "0x%x" % rng.randrange(1 << 20), "0b" + bin(rng.randrange(1 << 10))[2:], "0%o" % rng.randrange(1 << 12)])
            bad_nums.append(core + rng.choice(["uu", "UU", "lll", "LLL", "lul", "LUL", "ulu", "ullu", "lllu", "uull"]))
        elif k == 2:    # float with more than one suffix character
            bad_nums.append("%d.%d" % (rng.randrange(100), rng.randrange(1000)) + rng.choice(["", "e3", "E-2"]) + rng.choice(["ff", "fl", "lf", "ll", "FF", "fF", "lL"]))
        elif k == 3:    # dangling exponent marker
            bad_nums.append(rng.choice(["%d" % rng.randrange(1000), "%d.%d" % (rng.randrange(100), rng.randrange(1000))]) + rng.choice("eE") + rng.choice(["", "+", "-"]))
        else:           # digit not in the base after a valid prefix: the literal ends early and what follows must not be dropped
            bad_nums.append(rng.choice(["0b1012", "0b102", "0x1Fg", "0x1FG", "0b11a"]))
    for lit in sorted(set(bad_nums)):
        cases.append(["E", lit])
        meta.append(("badnum", lit, None, None))

    # ---- floats
    nflt = int((6000 if quick else 200000) * scale)
    for _ in range(nflt):
        style = rng.randrange(5)
        mant_digits = rng.randrange(1, 19)
        ip = str(rng.randrange(10**rng.randrange(1, 8))) if style != 3 else "0"
        fp = "".join(rng.choice("0123456789") for _ in range(mant_digits))
        exp = ""
        if style in (1, 2, 3):
            e = rng.randrange(-30, 31) if style != 2 else rng.randrange(-250, 250)
            exp = rng.choice("eE") + rng.choice(("", "+", "-") if e >= 0 else ("-",)).replace("+", "+" if e >= 0 else "") + str(abs(e))
            if e < 0 and not exp[1] == "-":
                exp = exp[0] + "-" + str(abs(e))
        digits = ip + "." + fp + exp
        kind = rng.choice("dddfl")
        if kind == "f" and style == 2:
            kind = "d"   # keep float literals inside float's normal range
        if kind == "f" and exp:
            ev = int(exp[1:])
            if abs(ev) > 25:
                kind = "d"
        suffix = {"d": "", "f": rng.choice("fF"), "l": rng.choice("lL")}[kind]
        cases.append(["F", digits + suffix, digits, kind])
        meta.append(("float", digits + suffix, {"d": "double", "f": "float", "l": "long double"}[kind], None))
    for lit, kind in (("1.0", "d"), ("0.5f", "f"), ("1e10", "d"), ("1.5e+3", "d"), ("2.5E-3l", "l"), ("0.1", "d"), ("0.1f", "f"), ("0.1l", "l"),
                      ("3.14159265358979323846", "d"), ("1.7976931348623157e308", "d"), ("2.2250738585072014e-308", "d"),
                      ("3.4028234e38f", "f"), ("1.17549435e-38f", "f"), ("123456789.125", "d"), ("16777217.0f", "f")):
        digits = lit.rstrip("fFlL")
        cases.append(["F", lit, digits, kind])
        meta.append(("float", lit, {"d": "double", "f": "float", "l": "long double"}[kind], None))

    # ---- strings and chars
    plain = [b"a", b"Z", b"0", b" ", b"$", b"{", b"}", b"#", b"/", b"'", b"\x01", b"\xc3\xa9"]
    escs = [b"\\" + bytes([c]) for c in b"'\"?\\abfnrtv$"] + [b"\\0", b"\\7", b"\\12", b"\\101", b"\\377", b"\\400", b"\\777", b"\\18", b"\\1234",
            b"\\x41", b"\\x4", b"\\x", b"\\xg", b"\\x414", b"\\xff", b"\\xFF", b"\\u0041", b"\\u00e9", b"\\u20AC", b"\\uD7FF", b"\\uD800",
            b"\\uDFFF", b"\\uE000", b"\\uFFFF", b"\\u12", b"\\u", b"\\u123g", b"\\U00000041", b"\\U0001F600", b"\\U0010FFFF", b"\\U00110000",
            b"\\U001FFFFF", b"\\U00200000", b"\\U0000D800", b"\\U0000DFFF", b"\\UFFFFFFFF", b"\\U80000000", b"\\U0000004", b"\\U",
            b"\\u007F", b"\\u0080", b"\\u07FF", b"\\u0800", b"\\U0000FFFF", b"\\U00010000", b"\\U00010001", b"\\U0000007f", b"\\U00000080",
            b"\\U000007ff", b"\\U00000800", b"\\U0003FFFF", b"\\U00040000", b"\\U000FFFFF", b"\\U00100000",
            b"\\q", b"\\e", b"\\8", b"\\9", b"\\ ", b"\\A", b"\\z", b"\\u00E9", b"\\U000000e9"]
    atoms = plain + escs
    bodies = set()
    for L in (1, 2):
        for t in itertools.product(atoms, repeat=L):
            bodies.add(b"".join(t))
    nlong = int((3000 if quick else 100000) * scale)
    for _ in range(nlong):
        bodies.add(b"".join(rng.choice(atoms) for _ in range(rng.randrange(3, 9))))
    if quick:
        bl = sorted(bodies)
        rng.shuffle(bl)
        bodies = set(bl[:9000]) | {b for b in bodies if len(b) <= 10 and b.count(b"\\") <= 1}
    for body in sorted(bodies):
        if b'"' in body.replace(b'\\"', b""):
            continue
        if b"${" in body.replace(b"\\$", b""):
            continue   # interpolation proper is exercised below with known expressions
        # a trailing lone backslash would escape the closing quote
        stripped = body.replace(b"\\\\", b"")
        if stripped.endswith(b"\\"):
            continue
        exp = decode(body, True)
        cases.append(["E", b'"' + body + b'"'])
        meta.append(("string", body, exp, None))
    for body in sorted(b for b in bodies if len(b) <= 12):
        if b"'" in body.replace(b"\\'", b""):
            continue
        stripped = body.replace(b"\\\\", b"")
        if stripped.endswith(b"\\"):
            continue
        exp = decode(body.replace(b"\\$", b"\\$"), False)
        cases.append(["E", b"'" + body + b"'"])
        meta.append(("char", body, exp, None))
    # interpolation markers
    for src, exp in ((b'"${1}"', b"1"), (b'"a${1+1}b"', b"a2b"), (b'"$"', b"$"), (b'"$$"', b"$$"), (b'"$a"', b"$a"), (b'"\\${1}"', b"${1}"),
                     (b'"${"x"}"', b"x"), (b'"a$"', b"a$"), (b'"${1}${2}"', b"12"), (b'"\\x41${1}\\x42"', b"A1B"), (b'"\\101${3}"', b"A3"),
                     (b'"$ {1}"', b"$ {1}"), (b'"{$}"', b"{$}"), (b'"${1}$"', b"1$"), (b'"\\u0041${1}"', b"A1")):
        cases.append(["E", src])
        meta.append(("interp", src, exp, None))

    # ---- identifiers colliding with keywords / reserved words
    per = 4 if quick else 12
    col = collisions(KEYWORDS + RESERVED, per, rng)
    nkw = 0
    for word, ids in col.items():
        for ident in ids:
            nkw += 1
            for tmpl, expect in (("var %s = 5; %s + 1", "int:6"), ("def %s(x) { x * 2 }; %s(4)", "int:8"),
                                 ("def f_(%s) { %s + 1 }; f_(2)", "int:3"), ("global %s = 3; %s", "int:3"),
                                 ("auto %s = \"s\"; %s", "string:s"), ("var o_ = fun(%s) { %s }; o_(7)", "int:7"),
                                 ("class C_ { attr %s; def C_() { this.%s = 9 } }; C_().%s", "int:9")):
                src = tmpl.replace("%s", ident)
                cases.append(["N", src])
                meta.append(("ident", src, expect, (word, ident)))
            cases.append(["H", ident])
            meta.append(("hash", ident, fnv1a(word.encode()), word))
    # keywords proper still work
    for src, expect in (("true", "bool:true"), ("false", "bool:false"), ("Infinity", "double:inf"), ("NaN", "double:nan"),
                        ("__LINE__", "int:1"), ("\n\n__LINE__", "int:3"), ("__FILE__", "string:__EVAL__"), ("def g_() { __FUNC__ }; g_()", "string:g_"),
                        ("__FUNC__", "string:NOT_IN_FUNCTION"), ("__CLASS__", "string:NOT_IN_CLASS"),
                        ("def add3_(a,b,c){a+b+c}; var h_ = bind(add3_, 1, _, 3); h_(5)", "int:9"),
                        ("var truex = 1; truex", "int:1"), ("var NaNa = 2; NaNa", "int:2"), ("var _a = 3; _a", "int:3"), ("var __LINE = 4; __LINE", "int:4"),
                        ("var Infinity_ = 1; Infinity_", "int:1"), ("var tru = 1; tru", "int:1"), ("var falsey = 1; falsey", "int:1")):
        cases.append(["N", src])
        meta.append(("keyword", src, expect, None))

    res, hf = vlib.run_cases(exe, cases, "c16", timeout_s=120, batch=64)
    ctx.harness_failures += hf
    vlib.judge_crashes(ctx, exe, cases, res, "c16", timeout_s=120)
    confirmed_collisions = 0
    for (kind, a, b, c), r in zip(meta, res):
        ctx.evaluations += 1
        ctx.count("kind:" + kind)
        if r.status != "ok":
            continue
        f = r.fields
        if kind == "int":
            lit, t, v = a, b, c
            ctx.nontriv("int:" + lit)
            want = "%s:%d" % (t, v)
            if f[0] != "ok":
                ctx.violation("int-literal:rejected", {"literal": lit, "expected": want, "got": f[0] + " " + f[2][:100]})
            elif f[1] != want:
                got_t = f[1].split(":")[0]
                which = "type" if f[1].split(":")[-1] == str(v) else "value"
                ctx.violation("int-literal:wrong-%s" % which, {"literal": lit, "expected": want, "got": f[1]})
            ctx.count("int-type:" + t)
        elif kind == "badnum":
            ctx.nontriv("badnum:" + a)
            if f[0] == "ok":
                ctx.violation("malformed-number-accepted:" + ("exponent" if a.rstrip("+-")[-1] in "eE" else ("suffix" if a[-1] in "uUlLfF" and a[-2] in "uUlLfF" else "digits")),
                              {"literal": a, "got": f[1][:100]})
            else:
                ctx.count("malformed-number-rejected")
        elif kind == "float":
            lit, t = a, b
            ctx.nontriv("float:" + lit)
            if f[0] != "ok":
                ctx.violation("float-literal:rejected", {"literal": lit, "expected": t, "got": f[0] + " " + f[3][:100]})
            elif f[1] != t:
                ctx.violation("float-literal:wrong-type", {"literal": lit, "expected": t, "got": f[1]})
            elif not (0 <= int(f[2]) <= ULP_TOLERANCE):
                ctx.violation("float-literal:off-by-more-than-%dulp" % ULP_TOLERANCE, {"literal": lit, "type": t, "ulps": f[2], "engine": f[3], "strtoX": f[4]})
            else:
                ctx.count("float-ulps:" + f[2])
        elif kind in ("string", "char", "interp"):
            body, exp = a, b
            ctx.nontriv(kind.encode() + b":" + body)
            tag = "string:" if kind != "char" else "char:"
            if kind == "char":
                if exp is not None and len(exp) != 1:
                    exp = None   # not a single char: must be rejected
            if exp is None:
                ctx.count("malformed-%s-cases" % kind)
                if f[0] == "ok":
                    ctx.violation("malformed-escape-accepted:%s" % kind, {"literal_body": vlib.esc(body), "got": f[1][:200]})
                elif f[0] != "eval_error":
                    ctx.violation("malformed-escape:wrong-exception:" + f[0], {"literal_body": vlib.esc(body), "what": f[2][:200]})
            else:
                if f[0] != "ok":
                    ctx.violation("wellformed-%s-rejected" % kind, {"literal_body": vlib.esc(body), "expected": vlib.esc(exp), "got": f[0] + " " + f[2][:120]})
                else:
                    if kind == "char":
                        want = "char:%d" % (exp[0] - 256 if exp[0] >= 128 else exp[0])
                        if f[1] != want:
                            ctx.violation("char-literal:wrong-value", {"literal_body": vlib.esc(body), "expected": want, "got": f[1]})
                    else:
                        got = vlib.unesc_bytes(vlib.unesc_bytes(r.raw[1])[len(b"string:"):]) if f[1].startswith("string:") else None
                        if got != exp:
                            ctx.violation("string-literal:wrong-bytes", {"literal": vlib.esc(body), "expected": vlib.esc(exp), "got": f[1][:200]})
        elif kind == "ident":
            src, expect, (word, ident) = a, b, c
            ctx.nontriv("ident:" + src)
            if f[0] != "ok" or f[1] != expect:
                site = "reserved-word" if word in RESERVED else "keyword"
                ctx.violation("identifier-treated-as-%s:%s" % (site, word), {"identifier": ident, "program": src, "expected": expect,
                                                                            "got": f[0] + " " + (f[1] or f[2])[:160]})
        elif kind == "hash":
            if int(f[0]) == b:
                confirmed_collisions += 1
        elif kind == "keyword":
            ctx.nontriv("kw:" + a)
            if f[0] != "ok" or f[1] != b:
                ctx.violation("keyword-misread", {"program": a, "expected": b, "got": f[0] + " " + (f[1] or f[2])[:160]})
    ctx.count("hash-collisions-confirmed-by-engine-hash", confirmed_collisions)
    ctx.count("colliding-identifiers", nkw)
    ctx.min_events["hash-collisions-confirmed-by-engine-hash"] = 20
    for k, m in enumerate(meta):
        if len(ctx.samples) >= 8:
            break
        if rng.random() < 0.0008:
            ctx.sample({"kind": m[0], "case": vlib.esc(m[1]) if isinstance(m[1], bytes) else m[1]})
    ctx.sample({"kind": meta[0][0], "case": meta[0][1]})
    ctx.rule = ("integer literals: values 2^k+-{0,1,2} for k in 7..64 and random fill x base{2,8,10,16} x 20 suffix spellings, expected type "
                "from the [lex.icon] table, spellings no C++ type can hold skipped; float literals: random decimal/exponent spellings x "
                "{none,f,l} compared in ulps with glibc strtof/strtod/strtold; string/char literals: all sequences of length 1-2 (+random longer) "
                "malformed numeric spellings (octal with 8/9, repeated or ill-formed u/l/f suffixes, exponent marker without digits) must be rejected; strings "
                "over 12 plain atoms and 50 escape forms, expected bytes from an independent C++ escape decoder (None = must be rejected); "
                "identifiers colliding with the 26 keyword/reserved-word hashes (found by FNV-1a inversion, confirmed by the engine's hash) used as "
                "variable/function/parameter/global/attribute names. Every generated literal is distinct and counts as non-trivial.")
    ctx.assumptions += ["LP64: long and long long are both 64 bit; typing is compared by typeid name",
                        "char is signed on this platform", "float reference = glibc strto*; tolerance %d ulp (the property says 'a few'; the observed distribution is in the evidence: it falls by a factor of ~8 per ulp, and a 5-ulp long double literal turns up about once in ten runs)" % ULP_TOLERANCE]
