"""setup_cmd: pre-build every flavour/harness the registered checks need (from /repo's working tree)."""
import glob
import os
import sys

import vlib

# harness -> flavours
PLAN = {
    "c01_parse": ["asan", "plain"],
    "c05_arith": ["asan"],
    "c16_lit": ["asan"],
    "seq_eval": ["asan"],
    "c18_json": ["asan", "plain"],
    "c19_files": ["asan"],
    "c02_diff": ["asan"],
    "c08_reeval": ["asan"],
    "c04_lookup": ["asan"],
    "c09_stack": ["asan"],
    "c14_isolation": ["asan"],
    "c15_state": ["asan"],
    "c10_exc": ["asan"],
    "c20_loc": ["asan"],
    "c11_life": ["asan"],
    "c07_const": ["asan"],
    "c06_dispatch": ["asan"],
    "c13_threads": ["tsan"],
}


def main():
    by_flavour = {}
    for h, fl in PLAN.items():
        if not os.path.exists(os.path.join(vlib.ROOT, "harness", h + ".cpp")):
            continue
        for f in fl:
            by_flavour.setdefault(f, []).append(h)
    for f, hs in by_flavour.items():
        vlib.build(f, hs)
    print("setup ok: " + ", ".join("%s[%d]" % (f, len(h)) for f, h in by_flavour.items()))
    return 0
