"""Shared machinery for the /verif checks: content-addressed builds from /repo's working tree,
sharded harness execution with crash attribution, known-findings matching, evidence writing."""
import fcntl
import hashlib
import json
import os
import random
import re
import resource
import shutil
import subprocess
import sys
import time

ROOT = os.path.dirname(os.path.dirname(os.path.abspath(__file__)))
REPO = os.environ.get("VERIF_REPO", "/repo")
ALT = REPO != "/repo"      # checks pointed at another checkout (seeded-change trials): separate build/evidence dirs, no purging
BUILD = os.path.join(ROOT, "build") if not ALT else os.path.join(ROOT, "build", "alt-" + hashlib.sha256(REPO.encode()).hexdigest()[:10])
EVID = os.path.join(ROOT, "evidence") if not ALT else os.path.join(BUILD, "evidence")
NCPU = int(os.environ.get("VERIF_JOBS", str(os.cpu_count() or 4)))
GUARD = "CHAISCRIPT_VERIF"

UBSAN_OFF = "shift,signed-integer-overflow,float-cast-overflow,float-divide-by-zero,integer-divide-by-zero,object-size"

FLAVOURS = {
    # compiler, compile flags, link flags
    "asan": ("clang++",
             ["-std=c++20", "-O1", "-g", "-fno-omit-frame-pointer", "-fsanitize=address,undefined",
              "-fno-sanitize=" + UBSAN_OFF, "-fno-sanitize-recover=all", "-D_GLIBCXX_ASSERTIONS", "-D" + GUARD, "-w"],
             ["-fsanitize=address,undefined", "-pthread", "-ldl"]),
    "tsan": ("g++",
             ["-std=c++20", "-O1", "-g", "-fsanitize=thread", "-D" + GUARD, "-w"],
             ["-fsanitize=thread", "-pthread", "-ldl"]),
    "plain": ("g++",
              ["-std=c++20", "-O1", "-g", "-D_GLIBCXX_ASSERTIONS", "-D" + GUARD, "-w"],
              ["-pthread", "-ldl"]),
    "fuzz": ("clang++",
             ["-std=c++20", "-O1", "-g", "-fno-omit-frame-pointer", "-fsanitize=fuzzer-no-link,address,undefined",
              "-fno-sanitize=" + UBSAN_OFF, "-fno-sanitize-recover=all", "-D_GLIBCXX_ASSERTIONS", "-D" + GUARD, "-w"],
             ["-fsanitize=fuzzer,address,undefined", "-pthread", "-ldl"]),
}

ASAN_ENV = {
    "ASAN_OPTIONS": "abort_on_error=1:detect_stack_use_after_return=1:detect_leaks=0:allocator_may_return_null=0:"
                    "handle_segv=1:handle_sigfpe=0:handle_abort=0:symbolize=1:print_legend=0:print_summary=1:"
                    "malloc_context_size=5:quarantine_size_mb=64",
    "UBSAN_OPTIONS": "print_stacktrace=1:abort_on_error=1:halt_on_error=1",
}

ENGINE_TUS = ["stdlib", "parser_opt", "parser_noopt"]


def log(*a):
    print(*a, file=sys.stderr, flush=True)


def _hash_tree(h, top, exts=None):
    for dp, dn, fn in sorted(os.walk(top)):
        dn.sort()
        for f in sorted(fn):
            if exts and not f.endswith(exts):
                continue
            p = os.path.join(dp, f)
            h.update(p.encode())
            with open(p, "rb") as fh:
                h.update(fh.read())


_repo_key_cache = None


def repo_key():
    """Hash of every file under /repo/include (the header-only engine). Any edit forces a rebuild."""
    global _repo_key_cache
    if _repo_key_cache is None:
        h = hashlib.sha256()
        _hash_tree(h, os.path.join(REPO, "include"))
        _repo_key_cache = h.hexdigest()[:16]
    return _repo_key_cache


def _file_hash(paths, extra=""):
    h = hashlib.sha256()
    h.update(extra.encode())
    for p in paths:
        with open(p, "rb") as fh:
            h.update(fh.read())
    return h.hexdigest()[:16]


class BuildError(Exception):
    pass


def _compile(cc, flags, src, obj):
    cmd = [cc] + flags + ["-I", os.path.join(REPO, "include"), "-I", os.path.join(ROOT, "harness"), "-c", src, "-o", obj + ".tmp"]
    p = subprocess.run(cmd, capture_output=True, text=True)
    if p.returncode != 0:
        raise BuildError("compile failed: %s\n%s" % (" ".join(cmd), p.stderr[-6000:]))
    os.replace(obj + ".tmp", obj)


def flavour_dir(flavour):
    comp, cflags, _ = FLAVOURS[flavour]
    fk = hashlib.sha256((comp + " ".join(cflags)).encode()).hexdigest()[:8]
    return os.path.join(BUILD, flavour, repo_key() + "-" + fk)


def _purge_old(flavour, keep):
    top = os.path.join(BUILD, flavour)
    if not os.path.isdir(top):
        return
    for d in os.listdir(top):
        p = os.path.join(top, d)
        if p != keep and os.path.isdir(p):
            shutil.rmtree(p, ignore_errors=True)


def build(flavour, harnesses, extra_flags=None):
    """Build (if stale) the engine TUs and the given harnesses for one flavour. Returns {harness: binary path}.
    Objects are keyed by the hash of /repo/include + flags (+ harness source), so an edit to /repo rebuilds."""
    if isinstance(harnesses, str):
        harnesses = [harnesses]
    comp, cflags, lflags = FLAVOURS[flavour]
    d = flavour_dir(flavour)
    os.makedirs(d, exist_ok=True)
    os.makedirs(BUILD, exist_ok=True)
    lockf = open(os.path.join(BUILD, flavour + ".lock"), "w")
    fcntl.flock(lockf, fcntl.LOCK_EX)
    try:
        if not ALT:
            _purge_old(flavour, d)
        jobs = []
        hdir = os.path.join(ROOT, "harness")
        common = [os.path.join(hdir, "common.hpp"), os.path.join(hdir, "libs.hpp")]
        for tu in ENGINE_TUS:
            obj = os.path.join(d, tu + ".o")
            if not os.path.exists(obj):
                jobs.append((os.path.join(hdir, tu + ".cpp"), obj, cflags))
        outs = {}
        links = []
        for hname in harnesses:
            src = os.path.join(hdir, hname + ".cpp")
            # a harness may include other harness files (the fuzz targets include the ordinary harness): hash its transitive local includes
            deps = [src] + common + sorted(
                os.path.join(hdir, f) for f in os.listdir(hdir) if f.endswith(".hpp") and f not in ("common.hpp", "libs.hpp"))
            with open(src) as sfh:
                for inc in re.findall(r'#include "([^"]+\.cpp)"', sfh.read()):
                    deps.append(os.path.join(hdir, inc))
            hk = _file_hash(deps, " ".join(extra_flags or []))
            obj = os.path.join(d, "%s-%s.o" % (hname, hk))
            exe = os.path.join(d, "%s-%s" % (hname, hk))
            outs[hname] = exe
            if not os.path.exists(exe):
                # remove stale versions of this harness
                for f in os.listdir(d):
                    if re.match(re.escape(hname) + r"-[0-9a-f]{16}(\.o)?$", f) and not f.startswith("%s-%s" % (hname, hk)):
                        try:
                            os.unlink(os.path.join(d, f))
                        except OSError:
                            pass
                if not os.path.exists(obj):
                    jobs.append((src, obj, cflags + (extra_flags or [])))
                links.append((obj, exe))
        if jobs:
            t0 = time.time()
            log("[build] %s: compiling %d TU(s): %s" % (flavour, len(jobs), ", ".join(os.path.basename(j[0]) for j in jobs)))
            procs = []
            errs = []
            pending = list(jobs)
            running = []
            while pending or running:
                while pending and len(running) < max(1, NCPU):
                    src, obj, fl = pending.pop(0)
                    cmd = [comp] + fl + ["-I", os.path.join(REPO, "include"), "-I", hdir, "-c", src, "-o", obj + ".tmp"]
                    lf = open(obj + ".log", "w")
                    running.append((subprocess.Popen(cmd, stdout=lf, stderr=subprocess.STDOUT), obj, cmd))
                    lf.close()
                for item in list(running):
                    pr, obj, cmd = item
                    if pr.poll() is not None:
                        with open(obj + ".log", errors="replace") as lfh:
                            out = lfh.read()
                        os.unlink(obj + ".log")
                        running.remove(item)
                        if pr.returncode != 0:
                            errs.append("compile failed: %s\n%s" % (" ".join(cmd), out[-8000:]))
                        else:
                            os.replace(obj + ".tmp", obj)
                time.sleep(0.05)
            if errs:
                raise BuildError("\n".join(errs))
            log("[build] %s: compiled in %.1fs" % (flavour, time.time() - t0))
        for obj, exe in links:
            cmd = [comp, obj] + [os.path.join(d, tu + ".o") for tu in ENGINE_TUS] + lflags + ["-o", exe + ".tmp"]
            p = subprocess.run(cmd, capture_output=True, text=True)
            if p.returncode != 0:
                raise BuildError("link failed: %s\n%s" % (" ".join(cmd), p.stderr[-6000:]))
            os.replace(exe + ".tmp", exe)
        return outs
    finally:
        fcntl.flock(lockf, fcntl.LOCK_UN)
        lockf.close()


# ------------------------------------------------------------------ escaping (mirror of common.hpp)

def esc(b):
    if isinstance(b, str):
        b = b.encode("utf-8", "surrogateescape")
    out = []
    for c in b:
        if c == 0x5c:
            out.append("\\\\")
        elif c == 9:
            out.append("\\t")
        elif c == 10:
            out.append("\\n")
        elif c == 13:
            out.append("\\r")
        elif c < 0x20 or c >= 0x7f:
            out.append("\\x%02x" % c)
        else:
            out.append(chr(c))
    return "".join(out)


_UNESC = re.compile(rb"\\(\\|t|n|r|x[0-9a-fA-F]{2})")


def unesc_bytes(s):
    if isinstance(s, str):
        s = s.encode("latin-1")

    def rep(m):
        g = m.group(1)
        if g == b"\\":
            return b"\\"
        if g == b"t":
            return b"\t"
        if g == b"n":
            return b"\n"
        if g == b"r":
            return b"\r"
        return bytes([int(g[1:], 16)])
    return _UNESC.sub(rep, s)


def unesc(s):
    return unesc_bytes(s).decode("utf-8", "replace")


# ------------------------------------------------------------------ running harnesses

def _preexec():
    try:
        resource.setrlimit(resource.RLIMIT_STACK, (resource.RLIM_INFINITY, resource.RLIM_INFINITY))
    except (ValueError, OSError):
        try:
            soft, hard = resource.getrlimit(resource.RLIMIT_STACK)
            resource.setrlimit(resource.RLIMIT_STACK, (hard, hard))
        except (ValueError, OSError):
            pass
    resource.setrlimit(resource.RLIMIT_CORE, (0, 0))


def _preexec_stack(nbytes):
    def f():
        resource.setrlimit(resource.RLIMIT_STACK, (nbytes, nbytes))
        resource.setrlimit(resource.RLIMIT_CORE, (0, 0))
    return f


class Result:
    __slots__ = ("k", "status", "fields", "raw", "stderr")

    def __init__(self, k):
        self.k = k
        self.status = "missing"  # ok | crash | missing
        self.fields = []
        self.raw = []
        self.stderr = ""

    def __repr__(self):
        return "Result(%d,%s,%r)" % (self.k, self.status, self.fields[:3])


def scratch_dir(name):
    d = os.path.join(BUILD, "scratch", "%s-%d" % (name, os.getpid()))
    shutil.rmtree(d, ignore_errors=True)
    os.makedirs(d, exist_ok=True)
    return d


def run_cases(exe, cases, name, shards=None, timeout_s=60, env=None, nofork=False, stack_bytes=None, args_extra=None,
              wall_timeout=None, batch=32):
    """cases: list of list-of-fields (str or bytes). Returns list[Result] (same order).
    Each shard process forks one child per case; abnormal child ends are logged as CRASH with stderr tail."""
    shards = shards or NCPU
    shards = max(1, min(shards, len(cases) or 1))
    d = scratch_dir(name)
    e = dict(os.environ)
    e.update(ASAN_ENV)
    if env:
        e.update(env)
    procs = []
    idx = [[] for _ in range(shards)]
    for k in range(len(cases)):
        idx[k % shards].append(k)
    for s in range(shards):
        cf = os.path.join(d, "cases.%d" % s)
        lf = os.path.join(d, "log.%d" % s)
        with open(cf, "w", encoding="latin-1") as fh:
            for k in idx[s]:
                fh.write("\t".join(esc(x) for x in cases[k]) + "\n")
        open(lf, "w").close()
        cmd = [exe, cf, lf, str(timeout_s)] + (["nofork"] if nofork else ["fork"]) + [str(batch)] + (args_extra or [])
        ef = open(os.path.join(d, "stderr.%d" % s), "w")
        procs.append((subprocess.Popen(cmd, env=e, stdout=subprocess.DEVNULL, stderr=ef,
                                       preexec_fn=_preexec_stack(stack_bytes) if stack_bytes else _preexec), ef, s))
    results = [Result(k) for k in range(len(cases))]
    deadline = time.time() + (wall_timeout or (timeout_s * 4 + 3600))
    harness_fail = []
    for pr, ef, s in procs:
        try:
            rc = pr.wait(timeout=max(1, deadline - time.time()))
        except subprocess.TimeoutExpired:
            pr.kill()
            rc = -9
        ef.close()
        if rc != 0:
            with open(os.path.join(d, "stderr.%d" % s), errors="replace") as fh:
                harness_fail.append((s, rc, fh.read()[-4000:]))
    for s in range(shards):
        lf = os.path.join(d, "log.%d" % s)
        with open(lf, "r", encoding="latin-1") as fh:
            for line in fh:
                line = line.rstrip("\n")
                parts = line.split("\t")
                if len(parts) < 2 or parts[0] not in ("END", "CRASH"):
                    continue
                local = int(parts[1])
                if local >= len(idx[s]):
                    continue
                r = results[idx[s][local]]
                r.raw = parts[2:]
                if parts[0] == "END":
                    r.status = "ok"
                    r.fields = [unesc(x) for x in parts[2:]]
                else:
                    r.status = "crash"
                    r.fields = [unesc(parts[2])] if len(parts) > 2 else []
                    r.stderr = unesc(parts[3]) if len(parts) > 3 else ""
    shutil.rmtree(d, ignore_errors=True)
    return results, harness_fail


def raw_bytes(r, i):
    """i-th field of a result as exact bytes."""
    return unesc_bytes(r.raw[i])


# ------------------------------------------------------------------ crash keys

_FRAME = re.compile(r"#\d+ 0x[0-9a-f]+ in (.+?) (?:/|\()")


def crash_key(stderr, status):
    """Normalised key of an abnormal end: kind + first chaiscript frames (templates/addresses stripped)."""
    kind = "signal"
    m = re.search(r"ERROR: AddressSanitizer: ([a-zA-Z\-]+)", stderr) or re.search(r"SUMMARY: AddressSanitizer: ([a-zA-Z\-]+)", stderr)
    if m:
        kind = "asan:" + m.group(1)
    elif "runtime error:" in stderr:
        m2 = re.search(r"runtime error: ([^\n]{0,60})", stderr)
        kind = "ubsan:" + re.sub(r"0x[0-9a-f]+|\d+", "N", m2.group(1)).strip().replace(" ", "-")[:40]
    elif "Assertion '" in stderr:
        m3 = re.search(r"Assertion '([^']+)'", stderr)
        kind = "glibcxx-assert:" + m3.group(1).replace(" ", "")[:40]
    elif "terminate called" in stderr:
        m4 = re.search(r"terminate called after throwing an instance of '([^']+)'", stderr)
        kind = "terminate:" + (m4.group(1) if m4 else "?")
    elif status == "signal=14":
        kind = "timeout"
    else:
        kind = status.replace("=", "-")
    frames = []
    for m in _FRAME.finditer(stderr):
        fn = m.group(1)
        if "chaiscript" not in fn and "json" not in fn.lower():
            continue
        fn = re.sub(r"<[^<>]*>", "", fn)
        for _ in range(6):
            fn = re.sub(r"<[^<>]*>", "", fn)
        fn = re.sub(r"\(.*$", "", fn)
        fn = fn.replace("chaiscript::", "")
        fn = re.sub(r"^.* ", "", fn)
        if fn and (not frames or frames[-1] != fn):
            frames.append(fn)
        if len(frames) >= 2:
            break
    return kind + (":" + "|".join(frames) if frames else "")


# ------------------------------------------------------------------ known findings

class Known:
    def __init__(self):
        self.findings = {}   # (prop, key) -> text
        self.fixed = []
        p = os.path.join(ROOT, "known_findings.txt")
        if os.path.exists(p):
            for line in open(p):
                line = line.strip()
                if not line or line.startswith("#"):
                    continue
                m = re.match(r"finding: property=(\S+) key=(\S+) (.*)$", line)
                if m:
                    self.findings[(m.group(1), m.group(2))] = m.group(3)
                    continue
                m = re.match(r"fixed: property=(\S+) (\S+) (.*)$", line)
                if m:
                    self.fixed.append((m.group(1), m.group(2), m.group(3)))

    def match(self, prop, key):
        return self.findings.get((prop, key))


# ------------------------------------------------------------------ check context

class Ctx:
    """Collects verdicts for one property run, writes evidence, prints VIOLATION / KNOWN-FINDING lines."""

    def __init__(self, prop, tier, seed, level="exploration"):
        self.prop = prop
        self.tier = tier
        self.seed = seed
        self.level = level
        self.t0 = time.time()
        self.known = Known()
        self.violations = {}     # key -> witness dict (first)
        self.viol_count = {}
        self.known_seen = {}
        self.inconclusive = []
        self.evaluations = 0
        self.nontrivial = set()
        self.samples = []
        self.counters = {}
        self.rule = ""
        self.assumptions = []
        self.exhaustive = None
        self.harness_failures = []
        self.rng = random.Random(seed)
        self.min_events = {}

    def count(self, name, n=1):
        self.counters[name] = self.counters.get(name, 0) + n

    def nontriv(self, case):
        if not isinstance(case, (bytes, str)):
            case = json.dumps(case, sort_keys=True, default=str)
        if isinstance(case, str):
            case = case.encode("utf-8", "surrogateescape")
        self.nontrivial.add(hashlib.blake2b(case, digest_size=8).digest())

    def sample(self, s, limit=6):
        if len(self.samples) < limit:
            self.samples.append(s)

    def violation(self, key, witness, n=1):
        """key: '<rule>:<site>' (property id is prefixed automatically)."""
        full = "%s:%s" % (self.prop, key)
        self.viol_count[full] = self.viol_count.get(full, 0) + n
        kf = self.known.match(self.prop, full)
        if kf is not None:
            self.known_seen.setdefault(full, (kf, witness))
            return False
        self.violations.setdefault(full, witness)
        return True

    def inconc(self, why, witness=None):
        self.inconclusive.append((why, witness))

    def finish(self, extra_cov=None):
        wall = time.time() - self.t0
        os.makedirs(EVID, exist_ok=True)
        replay_dir = os.path.join(BUILD, "replay")
        os.makedirs(replay_dir, exist_ok=True)
        for full, (txt, w) in sorted(self.known_seen.items()):
            print("KNOWN-FINDING: property=%s %s (key=%s, seen %d times this run)" % (self.prop, txt, full, self.viol_count[full]))
        vio_lines = []
        for i, (full, w) in enumerate(sorted(self.violations.items())):
            path = os.path.join(replay_dir, "%s-%s-%d.json" % (self.prop, self.tier, i))
            with open(path, "w") as fh:
                json.dump({"property": self.prop, "key": full, "seed": self.seed, "tier": self.tier, "count": self.viol_count[full],
                           "witness": w}, fh, indent=1, default=_jsonable)
            vio_lines.append("VIOLATION property=%s replay=%s" % (self.prop, path))
            log("  violation key=%s count=%d witness=%s" % (full, self.viol_count[full], json.dumps(w, default=_jsonable)[:1500]))
        cov = {
            "evaluations": int(self.evaluations),
            "distinct_nontrivial": len(self.nontrivial),
            "rule": self.rule,
            "samples": self.samples if self.samples else ["(none)"],
            "observed": self.counters,
            "inconclusive": len(self.inconclusive),
            "inconclusive_reasons": sorted(set(w for w, _ in self.inconclusive))[:10],
            "known_findings_seen": {k: self.viol_count[k] for k in self.known_seen},
            "violation_keys": {k: self.viol_count[k] for k in self.violations},
            "repo_key": repo_key(),
        }
        if self.exhaustive is not None:
            cov["exhaustive"] = self.exhaustive
        if extra_cov:
            cov.update(extra_cov)
        ev = {
            "property_id": self.prop, "tier": self.tier, "seed": int(self.seed), "level": self.level,
            "coverage": cov, "assumptions": self.assumptions, "wall_s": round(wall, 2), "violations": len(self.violations),
        }
        with open(os.path.join(EVID, self.prop + ".json"), "w") as fh:
            json.dump(ev, fh, indent=1, default=_jsonable)
        for l in vio_lines:
            print(l)
        rc = 0
        if vio_lines:
            rc = 1
        else:
            bad = []
            if self.harness_failures:
                bad.append("harness failures: %r" % (self.harness_failures[:2],))
            if self.evaluations and len(self.inconclusive) > max(3, 0.01 * self.evaluations):
                bad.append("%d inconclusive cases of %d" % (len(self.inconclusive), self.evaluations))
            for name, mn in self.min_events.items():
                if self.counters.get(name, 0) < mn:
                    bad.append("monitor observed too little: %s=%d < %d" % (name, self.counters.get(name, 0), mn))
            if len(self.nontrivial) < 2:
                bad.append("fewer than 2 distinct non-trivial cases")
            if bad:
                for b in bad:
                    print("INCONCLUSIVE property=%s %s" % (self.prop, b))
                rc = 2
        print("%s tier=%s seed=%d evaluations=%d nontrivial=%d violations=%d known=%d inconclusive=%d wall=%.1fs -> exit %d" % (
            self.prop, self.tier, self.seed, self.evaluations, len(self.nontrivial), len(self.violations), len(self.known_seen),
            len(self.inconclusive), wall, rc))
        return rc


def _jsonable(o):
    if isinstance(o, bytes):
        return {"bytes_escaped": esc(o)}
    if isinstance(o, set):
        return sorted(o)
    return str(o)


def judge_crashes(ctx, exe, cases, results, name, describe=None, per_key=2, **run_kw):
    """Route every abnormal end (signal, sanitizer report, assertion, terminate, watchdog) through known-findings matching.
    A crash is re-executed once alone in a fresh process before it is reported; a watchdog expiry is inconclusive unless it
    repeats alone. Returns number of crashed cases."""
    groups = {}
    n = 0
    for r in results:
        if r.status == "crash":
            n += 1
            groups.setdefault(crash_key(r.stderr, r.fields[0] if r.fields else "?"), []).append(r)
        elif r.status == "missing":
            ctx.inconc("case-result-missing", r.k)
    for key, rs in sorted(groups.items()):
        ctx.count("crash:" + key, len(rs))
        confirmed = None
        for r in rs[:per_key]:
            kw = dict(run_kw)
            kw["shards"] = 1
            kw["batch"] = 1
            res2, hf = run_cases(exe, [cases[r.k]], name + "-rerun", **kw)
            if res2 and res2[0].status == "crash":
                confirmed = (r, res2[0])
                break
        if confirmed is None:
            for r in rs:
                ctx.inconc("flaky-" + key, r.k)
            continue
        r, r2 = confirmed
        key2 = crash_key(r2.stderr, r2.fields[0] if r2.fields else "?")
        wit = {"case": describe(r.k) if describe else [(_short(x)) for x in cases[r.k]], "status": r2.fields[:1],
               "stderr": r2.stderr[-3000:]}
        rule = "hang" if key2 == "timeout" else "crash"
        for _ in rs:
            ctx.violation("%s:%s" % (rule, key2), wit)
    return n


def _short(x, n=4000):
    if isinstance(x, bytes):
        x = esc(x)
    return x if len(x) <= n else x[:n] + "...(%d bytes)" % len(x)


def run_libfuzzer(exe, name, corpus_inputs, runs, dictionary=None, max_len=4096, jobs=None, timeout_per_input=60):
    """Runs a libFuzzer target for a bounded number of executions (per job). Returns (stats dict, list of artifact byte strings)."""
    d = scratch_dir(name)
    cdir = os.path.join(d, "corpus")
    adir = os.path.join(d, "artifacts")
    os.makedirs(cdir)
    os.makedirs(adir)
    for i, b in enumerate(corpus_inputs):
        with open(os.path.join(cdir, "seed%05d" % i), "wb") as fh:
            fh.write(b[:max_len])
    jobs = jobs or max(2, NCPU // 2)
    cmd = [exe, cdir, "-runs=%d" % runs, "-max_len=%d" % max_len, "-timeout=%d" % timeout_per_input, "-rss_limit_mb=6000", "-print_final_stats=1",
           "-artifact_prefix=%s/" % adir, "-jobs=%d" % jobs, "-workers=%d" % jobs, "-ignore_crashes=0", "-reload=1"]
    if dictionary:
        dp = os.path.join(d, "dict.txt")
        with open(dp, "w") as fh:
            for w in dictionary:
                fh.write('"%s"\n' % "".join("\\x%02x" % c for c in w))
        cmd.append("-dict=" + dp)
    e = dict(os.environ)
    e.update(ASAN_ENV)
    e["ASAN_OPTIONS"] = e["ASAN_OPTIONS"].replace("detect_stack_use_after_return=1", "detect_stack_use_after_return=0")
    p = subprocess.run(cmd, cwd=d, env=e, capture_output=True, text=True, preexec_fn=_preexec_stack(512 << 20))
    stats = {"executions": 0, "jobs": jobs, "corpus_seeds": len(corpus_inputs), "coverage_edges": 0, "new_units": 0, "exit": p.returncode}
    for fn in sorted(os.listdir(d)):
        if fn.startswith("fuzz-") and fn.endswith(".log"):
            with open(os.path.join(d, fn), errors="replace") as fh:
                txt = fh.read()
            m = re.search(r"stat::number_of_executed_units:\s*(\d+)", txt)
            if m:
                stats["executions"] += int(m.group(1))
            m = re.search(r"stat::new_units_added:\s*(\d+)", txt)
            if m:
                stats["new_units"] += int(m.group(1))
            covs = re.findall(r"cov: (\d+)", txt)
            if covs:
                stats["coverage_edges"] = max(stats["coverage_edges"], int(covs[-1]))
    arts = []
    for fn in sorted(os.listdir(adir)):
        with open(os.path.join(adir, fn), "rb") as fh:
            arts.append((fn, fh.read()))
    shutil.rmtree(d, ignore_errors=True)
    return stats, arts
