"""chailang.interp - reference interpreter for the generator's AST (not for ChaiScript text: no second parser to trust).
Implements the documented core semantics: C integer arithmetic, short-circuit logic, block scoping with shadowing, value copies on
declaration vs aliasing through references / parameters / captures, loops with break/continue, switch with fall-through, functions
with guards, recursion and early return, lambdas, script classes, vectors, try/catch/finally, throw.
Deviation switches (all off by default) reproduce *recorded* engine findings so that a divergence can be attributed to exactly one of
them: shallow_container_copy."""


class ChaiError(Exception):
    """an error the engine reports; cls in eval_error | arithmetic_error | thrown"""

    def __init__(self, cls, payload=None):
        Exception.__init__(self, cls)
        self.cls = cls
        self.payload = payload


class BreakEx(Exception):
    pass


class ContinueEx(Exception):
    pass


class ReturnEx(Exception):
    def __init__(self, value):
        self.value = value


class Cell:
    __slots__ = ("v",)

    def __init__(self, v):
        self.v = v


class Vec:
    __slots__ = ("cells",)

    def __init__(self, cells):
        self.cells = cells


class Map:
    """string -> Cell, iterated in key order (std::map)"""
    __slots__ = ("cells",)

    def __init__(self, cells):
        self.cells = cells      # dict


class Obj:
    __slots__ = ("cls", "attrs")

    def __init__(self, cls, attrs):
        self.cls = cls
        self.attrs = attrs      # name -> Cell


class Func:
    def __init__(self, kind, params, body, guard=None, captures=None, name=None):
        self.kind, self.params, self.body, self.guard, self.captures, self.name = kind, params, body, guard, captures or {}, name


VOID = ("void",)
STEP_LIMIT = 2_000_000


def c_div(a, b):
    q = abs(a) // abs(b)
    return q if (a >= 0) == (b >= 0) else -q


def c_mod(a, b):
    return a - c_div(a, b) * b


def wrap32(v):
    v &= 0xffffffff
    return v - (1 << 32) if v & 0x80000000 else v


def to_string(v):
    if isinstance(v, bool):
        return "true" if v else "false"
    if isinstance(v, int):
        return str(v)
    if isinstance(v, str):
        return v
    if isinstance(v, Vec):
        return "[" + ", ".join(to_string(c.v) for c in v.cells) + "]"
    if isinstance(v, Map):
        return "[" + ", ".join("<%s, %s>" % (k, to_string(v.cells[k].v)) for k in sorted(v.cells)) + "]"
    if isinstance(v, Obj) and v.cls == "Pair":
        return "<%s, %s>" % (to_string(v.attrs["first"].v), to_string(v.attrs["second"].v))
    raise ChaiError("eval_error", "to_string")


def render(v):
    if v is VOID or v is None:
        return "void"
    if isinstance(v, bool):
        return "bool:true" if v else "bool:false"
    if isinstance(v, int):
        return "int:%d" % v
    if isinstance(v, str):
        return "string:" + v
    if isinstance(v, Vec):
        return "[" + ", ".join(render(c.v) for c in v.cells) + "]"
    if isinstance(v, Func):
        return "function"
    if isinstance(v, Obj):
        return "obj:%s" % v.cls
    return "?"


class Interp:
    def __init__(self, deviations=()):
        self.dev = set(deviations)
        self.out = []
        self.globals = {}
        self.funcs = {}
        self.classes = {}
        self.scopes = [{}]
        self.steps = 0
        self.ticks = []

    # ------------------------------------------------------------ environment
    def lookup(self, name):
        for sc in reversed(self.scopes):
            if name in sc:
                return sc[name]
        if name in self.globals:
            return self.globals[name]
        raise ChaiError("eval_error", "Can not find object: " + name)

    def declare(self, name, cell):
        if name in self.scopes[-1]:
            raise ChaiError("eval_error", "Variable redefined '%s'" % name)
        self.scopes[-1][name] = cell

    def clone(self, v):
        if isinstance(v, Vec):
            if "shallow_container_copy" in self.dev:
                return Vec(list(v.cells))
            return Vec([Cell(self.clone(c.v)) for c in v.cells])
        if isinstance(v, Map):
            if "shallow_container_copy" in self.dev:
                return Map(dict(v.cells))
            return Map({k: Cell(self.clone(c.v)) for k, c in v.cells.items()})
        if isinstance(v, Obj):
            return Obj(v.cls, {k: Cell(self.clone(c.v)) for k, c in v.attrs.items()})
        return v

    # ------------------------------------------------------------ expressions
    def tick(self):
        self.steps += 1
        if self.steps > STEP_LIMIT:
            raise RuntimeError("model step limit")

    def ev(self, x):
        """value of an expression"""
        self.tick()
        k = x[0]
        if k in ("int", "bool", "str"):
            return x[1]
        if k == "var":
            return self.lookup(x[1]).v
        if k == "bin":
            op = x[1]
            if op == "&&":
                return bool(self.truth(self.ev(x[2])) and self.truth(self.ev(x[3])))
            if op == "||":
                return bool(self.truth(self.ev(x[2])) or self.truth(self.ev(x[3])))
            a = self.ev(x[2])
            b = self.ev(x[3])
            return self.binop(op, a, b)
        if k == "un":
            v = self.ev(x[2])
            if x[1] == "-":
                return wrap32(-v)
            return not self.truth(v)
        if k == "tern":
            return self.ev(x[2]) if self.truth(self.ev(x[1])) else self.ev(x[3])
        if k == "call":
            return self.call_named(x[1], x[2])
        if k == "mcall":
            return self.method_call(x[1], x[2], x[3])
        if k == "attr":
            o = self.ev(x[1])
            return o.attrs[x[2]].v
        if k == "index":
            return self.index_cell(x).v
        if k == "vec":
            return Vec([Cell(self.clone(self.ev(e))) for e in x[1]])
        if k == "map":
            return Map({kk: Cell(self.clone(self.ev(e))) for kk, e in x[1]})
        if k == "int_of":
            return int(self.ev(x[1]))
        if k == "tostr":
            return to_string(self.ev(x[1]))
        if k == "size":
            v = self.ev(x[1])
            return len(v.cells) if isinstance(v, (Vec, Map)) else len(v)
        if k == "interp":
            return "".join(p[1] if p[0] == "str" else to_string(self.ev(p)) for p in x[1])
        if k == "lambda":
            caps = {c: self.lookup(c) for c in x[1]}
            return Func("lambda", x[2], x[3], captures=caps)
        raise ValueError("expr " + k)

    def truth(self, v):
        if not isinstance(v, bool):
            raise ChaiError("eval_error", "Condition not boolean")
        return v

    def binop(self, op, a, b):
        if isinstance(a, str) or isinstance(b, str):
            if op == "+":
                return a + b
            if op == "==":
                return a == b
            if op == "!=":
                return a != b
            raise ChaiError("eval_error", "string operator " + op)
        if op in ("==", "!=", "<", "<=", ">", ">="):
            return {"==": a == b, "!=": a != b, "<": a < b, "<=": a <= b, ">": a > b, ">=": a >= b}[op]
        if op == "+":
            return wrap32(a + b)
        if op == "-":
            return wrap32(a - b)
        if op == "*":
            return wrap32(a * b)
        if op in ("/", "%"):
            if b == 0:
                raise ChaiError("arithmetic_error", "divide by zero")
            return wrap32(c_div(a, b) if op == "/" else c_mod(a, b))
        if op == "&":
            return wrap32(a & b)
        if op == "|":
            return wrap32(a | b)
        if op == "^":
            return wrap32(a ^ b)
        if op == "<<":
            return wrap32(a << b)
        if op == ">>":
            return a >> b
        raise ValueError(op)

    def index_cell(self, x, create=False):
        v = self.ev(x[1])
        i = self.ev(x[2])
        if isinstance(v, Map):
            if i not in v.cells:
                if not create:
                    # reading a missing key default-inserts an undefined value in the engine: not modelled, never generated unguarded
                    raise RuntimeError("read of a missing map key is not modelled")
                v.cells[i] = Cell(None)
            return v.cells[i]
        if not (0 <= i < len(v.cells)):
            raise ChaiError("std", "out_of_range")
        return v.cells[i]

    def lvalue(self, x, create=False):
        k = x[0]
        if k == "var":
            return self.lookup(x[1])
        if k == "index":
            return self.index_cell(x, create)
        if k == "attr":
            return self.ev(x[1]).attrs[x[2]]
        raise ValueError("lvalue " + k)

    # ------------------------------------------------------------ calls
    def call_named(self, name, args):
        if name == "tick" or name == "cb":
            v = self.ev(args[0])
            self.ticks.append(v)
            return v
        if name in self.classes:
            return self.construct(name, args)
        f = None
        for sc in reversed(self.scopes):
            if name in sc:
                f = sc[name].v
                break
        if f is None and name in self.globals:
            f = self.globals[name].v
        if f is None:
            f = self.funcs.get(name)
        if f is None:
            raise ChaiError("eval_error", "Can not find object: " + name)
        # arguments: a bare variable is passed by reference (the parameter aliases it), anything else is a fresh value
        cells = [self.arg_cell(a) for a in args]
        return self.invoke(f, cells)

    def arg_cell(self, a):
        """an argument that designates an object (variable, attribute, element) is passed by reference: the parameter aliases it;
        anything else is a fresh value"""
        if a[0] in ("var", "attr", "index"):
            return self.lvalue(a)
        return Cell(self.ev(a))

    def invoke(self, f, cells, this=None):
        saved = self.scopes
        frame = {}
        if this is not None:
            frame["this"] = Cell(this)
        frame.update(f.captures)
        for (p, c) in zip(f.params, cells):
            frame[p if isinstance(p, str) else p[0]] = c
        self.scopes = [frame]
        try:
            if f.guard is not None:
                if not self.truth(self.ev(f.guard)):
                    raise ChaiError("eval_error", "Guard evaluation failed")
            try:
                return self.block_value(f.body)
            except ReturnEx as r:
                return r.value
        finally:
            self.scopes = saved

    def construct(self, cname, args):
        cls = self.classes[cname]
        obj = Obj(cname, {a: Cell(None) for a in cls["attrs"]})
        cells = [self.arg_cell(a) for a in args]
        ctor = Func("method", cls["ctor"][0], cls["ctor"][1])
        self.invoke(ctor, cells, this=obj)
        return obj

    def method_call(self, oexpr, mname, args):
        o = self.ev(oexpr)
        if isinstance(o, Vec) and mname == "push_back":
            o.cells.append(Cell(self.clone(self.ev(args[0]))))
            return VOID
        if isinstance(o, Map):
            if mname == "count":
                return 1 if self.ev(args[0]) in o.cells else 0
            if mname == "erase":
                return 1 if o.cells.pop(self.ev(args[0]), None) is not None else 0
            if mname == "clear":
                o.cells.clear()
                return VOID
            if mname == "empty":
                return not o.cells
            raise ChaiError("eval_error", "no method " + mname)
        if isinstance(o, Obj):
            m = self.classes[o.cls]["methods"][mname]
            cells = [self.arg_cell(a) for a in args]
            return self.invoke(Func("method", m[0], m[1]), cells, this=o)
        raise ChaiError("eval_error", "no method " + mname)

    # ------------------------------------------------------------ statements
    def block_value(self, stmts):
        """evaluates statements in the *current* scope, returns the value of the last one"""
        last = VOID
        for st in stmts:
            last = self.stmt(st)
        return last

    def scoped(self, stmts):
        self.scopes.append({})
        try:
            return self.block_value(stmts)
        finally:
            self.scopes.pop()

    def stmt(self, st):
        self.tick()
        k = st[0]
        if k in ("decl", "auto"):
            v = self.ev(st[2])
            self.declare(st[1], Cell(self.clone(v)))
            return v
        if k == "global":
            v = self.ev(st[2])
            if st[1] not in self.globals:
                self.globals[st[1]] = Cell(self.clone(v))
            else:
                self.globals[st[1]].v = v
            return v
        if k == "ref":
            self.declare(st[1], self.lookup(st[2]))
            return VOID
        if k == "assign":
            _, lv, op, e = st
            v = self.ev(e)          # right-hand side first
            cell = self.lvalue(lv, create=(op == "="))
            if op == "=":
                cell.v = self.clone(v) if not isinstance(v, (Vec, Obj)) else self.clone(v)
            else:
                cell.v = self.binop(op[:-1], cell.v, v)
            return cell.v
        if k == "incr":
            cell = self.lookup(st[1])
            cell.v = wrap32(cell.v + (1 if st[2] == "++" else -1))
            return cell.v
        if k == "print":
            self.out.append(to_string(self.ev(st[1])))
            return VOID
        if k == "expr":
            return self.ev(st[1])
        if k == "raw":
            raise RuntimeError("raw statements are not modelled")
        if k == "block":
            return self.scoped(st[1])
        if k == "if":
            for c, b in st[1]:
                if self.truth(self.ev(c)):
                    return self.scoped(b)
            if st[2] is not None:
                return self.scoped(st[2])
            return VOID
        if k == "for":
            _, i, lo, hi, style, step, body = st
            self.scopes.append({i: Cell(lo)})
            try:
                cell = self.scopes[-1][i]
                while {"<": cell.v < hi, "<=": cell.v <= hi, "!=": cell.v != hi}[style]:
                    self.tick()
                    try:
                        self.scoped(body)
                    except ContinueEx:
                        pass
                    except BreakEx:
                        break
                    cell.v += 1
            finally:
                self.scopes.pop()
            return VOID
        if k == "while":
            _, kname, n, extra, body = st
            cell = self.lookup(kname)
            while cell.v < n and (extra is None or self.truth(self.ev(extra))):
                self.tick()
                self.scopes.append({})
                stop = False
                try:
                    cell.v += 1
                    self.block_value(body)
                except ContinueEx:
                    pass
                except BreakEx:
                    stop = True
                finally:
                    self.scopes.pop()
                if stop:
                    break
            return VOID
        if k == "rfor":
            _, x, src, body = st
            v = self.ev(src)
            if isinstance(v, Map):
                # elements are pairs <const key, value>; the value is the map's own element
                cells = [Cell(Obj("Pair", {"first": Cell(kk), "second": v.cells[kk]})) for kk in sorted(v.cells)]
            else:
                cells = list(v.cells)
            try:
                for c in cells:
                    self.tick()
                    self.scopes.append({x: c})
                    try:
                        self.scoped(body)
                    except ContinueEx:
                        pass
                    finally:
                        self.scopes.pop()
            except BreakEx:
                pass
            return VOID
        if k == "break":
            raise BreakEx()
        if k == "continue":
            raise ContinueEx()
        if k == "return":
            raise ReturnEx(self.ev(st[1]) if st[1] is not None else VOID)
        if k == "throw":
            raise ChaiError("thrown", self.ev(st[1]))
        if k == "switch":
            _, e, cases, default = st
            self.scopes.append({})
            try:
                v = self.ev(e)
                matched = False
                try:
                    for cv, body, brk in cases:
                        if matched or v == cv:
                            matched = True
                            self.scoped(body)
                            if brk:
                                raise BreakEx()
                    if default is not None:
                        self.scoped(default)
                except BreakEx:
                    pass
            finally:
                self.scopes.pop()
            return VOID
        if k == "try":
            _, body, ev, cb, fin = st
            self.scopes.append({})
            try:
                try:
                    self.scoped(body)
                except ChaiError as e:
                    self.scopes.append({ev: Cell(e.payload)})
                    try:
                        self.block_value(cb)
                    finally:
                        self.scopes.pop()
            finally:
                try:
                    if fin is not None:
                        self.scoped(fin)
                finally:
                    self.scopes.pop()
            return VOID
        if k == "def":
            _, name, params, guard, body = st
            if name in self.funcs:
                raise ChaiError("eval_error", "Function redefined")
            self.funcs[name] = Func("def", [p for p, _ in params], body, guard=guard, name=name)
            return VOID
        if k == "class":
            _, cname, attrs, ctor, methods = st
            self.classes[cname] = {"attrs": attrs, "ctor": ctor, "methods": {m: (ps, b) for m, ps, b in methods}}
            return VOID
        raise ValueError("stmt " + k)

    # ------------------------------------------------------------ whole program
    def run(self, prog):
        """-> (stdout, outcome class, rendered final value or payload)"""
        try:
            last = self.block_value(prog)
            return "\n".join(self.out) + ("\n" if self.out else ""), "ok", render(last)
        except ChaiError as e:
            out = "\n".join(self.out) + ("\n" if self.out else "")
            if e.cls == "thrown":
                return out, "boxed", render(e.payload)
            return out, e.cls, ""
        except (BreakEx, ContinueEx):
            return "\n".join(self.out) + ("\n" if self.out else ""), "control-flow-escaped", ""
