"""chailang.printer - AST -> ChaiScript source. Fully parenthesised expressions (precedence is tested separately by c03's
precedence family, which prints without redundant parentheses)."""

BINPREC = {"||": 1, "&&": 2, "|": 3, "^": 4, "&": 5, "==": 6, "!=": 6, "<": 7, "<=": 7, ">": 7, ">=": 7, "<<": 8, ">>": 8, "+": 9, "-": 9,
           "*": 10, "/": 10, "%": 10}


def chai_string(s):
    out = []
    for ch in s:
        if ch == "\\":
            out.append("\\\\")
        elif ch == '"':
            out.append('\\"')
        elif ch == "\n":
            out.append("\\n")
        elif ch == "\t":
            out.append("\\t")
        elif ch == "$":
            out.append("\\$")
        else:
            out.append(ch)
    return '"' + "".join(out) + '"'


class Printer:
    def __init__(self, minimal_parens=False):
        self.minimal = minimal_parens

    # ---------------------------------------------------------------- expressions
    def e(self, x, prec=0):
        k = x[0]
        if k == "int":
            return str(x[1]) if x[1] >= 0 else "(%d)" % x[1]
        if k == "bool":
            return "true" if x[1] else "false"
        if k == "str":
            return chai_string(x[1])
        if k == "var":
            return x[1]
        if k == "bin":
            op = x[1]
            p = BINPREC[op]
            if self.minimal:
                s = "%s %s %s" % (self.e(x[2], p), op, self.e(x[3], p + 1))
                return "(%s)" % s if p < prec else s
            return "(%s %s %s)" % (self.e(x[2]), op, self.e(x[3]))
        if k == "un":
            return "(%s%s)" % (x[1], self.e(x[2], 99))
        if k == "tern":
            return "(%s ? %s : %s)" % (self.e(x[1]), self.e(x[2]), self.e(x[3]))
        if k == "call":
            return "%s(%s)" % (x[1], ", ".join(self.e(a) for a in x[2]))
        if k == "mcall":
            return "%s.%s(%s)" % (self.e(x[1], 99), x[2], ", ".join(self.e(a) for a in x[3]))
        if k == "attr":
            return "%s.%s" % (self.e(x[1], 99), x[2])
        if k == "index":
            return "%s[%s]" % (self.e(x[1], 99), self.e(x[2]))
        if k == "vec":
            return "[" + ", ".join(self.e(a) for a in x[1]) + "]" if x[1] else "Vector()"
        if k == "map":
            return "[" + ", ".join("%s: %s" % (chai_string(kk), self.e(a)) for kk, a in x[1]) + "]" if x[1] else "Map()"
        if k == "int_of":
            return "int(%s)" % self.e(x[1])
        if k == "tostr":
            return "to_string(%s)" % self.e(x[1])
        if k == "size":
            return "int(%s.size())" % self.e(x[1], 99)
        if k == "interp":
            out = []
            for part in x[1]:
                if part[0] == "str":
                    out.append(chai_string(part[1])[1:-1])
                else:
                    out.append("${" + self.e(part) + "}")
            return '"' + "".join(out) + '"'
        if k == "lambda":
            caps, params, body = x[1], x[2], x[3]
            head = "fun" + ("[" + ", ".join(caps) + "]" if caps else "") + "(" + ", ".join(params) + ")"
            return head + " {\n" + self.block(body, 1) + "}"
        raise ValueError("expr kind " + k)

    # ---------------------------------------------------------------- statements
    def block(self, stmts, ind):
        return "".join(self.s(st, ind) for st in stmts)

    def s(self, st, ind=0):
        pad = "  " * ind
        k = st[0]
        if k == "raw":
            return "".join(pad + line + "\n" for line in st[1].split("\n"))
        if k in ("decl", "auto"):
            kw = "var" if k == "decl" else "auto"
            if st[2][0] == "lambda":
                src = self.e(st[2])
                src = src.replace("\n", "\n" + pad)
                return "%s%s %s = %s\n" % (pad, kw, st[1], src)
            return "%s%s %s = %s\n" % (pad, kw, st[1], self.e(st[2]))
        if k == "global":
            return "%sglobal %s = %s\n" % (pad, st[1], self.e(st[2]))
        if k == "ref":
            return "%svar &%s = %s\n" % (pad, st[1], st[2])
        if k == "assign":
            return "%s%s %s %s\n" % (pad, self.e(st[1], 99), st[2], self.e(st[3]))
        if k == "incr":
            return "%s%s%s\n" % (pad, st[2], st[1])
        if k == "print":
            return "%sprint(%s)\n" % (pad, self.e(st[1]))
        if k == "expr":
            return "%s%s\n" % (pad, self.e(st[1]))
        if k == "block":
            return "%s{\n%s%s}\n" % (pad, self.block(st[1], ind + 1), pad)
        if k == "if":
            out = ""
            for i, (c, b) in enumerate(st[1]):
                out += "%s%s (%s) {\n%s%s}" % (pad if i == 0 else " else ", "if", self.e(c), self.block(b, ind + 1), pad)
            if st[2] is not None:
                out += " else {\n%s%s}" % (self.block(st[2], ind + 1), pad)
            return out + "\n"
        if k == "for":
            _, i, lo, hi, style, step, body = st
            step = {"++i": "++%s", "i++": "%s++", "i+=1": "%s += 1"}[step] % i
            return "%sfor (var %s = %d; %s %s %d; %s) {\n%s%s}\n" % (pad, i, lo, i, style, hi, step, self.block(body, ind + 1), pad)
        if k == "while":
            _, kname, n, extra, body = st
            cond = "%s < %d" % (kname, n) + (" && %s" % self.e(extra) if extra is not None else "")
            return "%swhile (%s) {\n%s  ++%s\n%s%s}\n" % (pad, cond, pad, kname, self.block(body, ind + 1), pad)
        if k == "rfor":
            return "%sfor (%s : %s) {\n%s%s}\n" % (pad, st[1], self.e(st[2]), self.block(st[3], ind + 1), pad)
        if k == "break":
            return pad + "break\n"
        if k == "continue":
            return pad + "continue\n"
        if k == "return":
            return pad + ("return %s\n" % self.e(st[1]) if st[1] is not None else "return\n")
        if k == "throw":
            return "%sthrow(%s)\n" % (pad, self.e(st[1]))
        if k == "switch":
            out = "%sswitch (%s) {\n" % (pad, self.e(st[1]))
            for v, b, brk in st[2]:
                out += "%s  case (%d) {\n%s%s%s  }\n" % (pad, v, self.block(b, ind + 2), (pad + "    break\n") if brk else "", pad)
            if st[3] is not None:
                out += "%s  default {\n%s%s  }\n" % (pad, self.block(st[3], ind + 2), pad)
            return out + pad + "}\n"
        if k == "try":
            _, body, ev, cb, fin = st
            out = "%stry {\n%s%s} catch (%s) {\n%s%s}" % (pad, self.block(body, ind + 1), pad, ev, self.block(cb, ind + 1), pad)
            if fin is not None:
                out += " finally {\n%s%s}" % (self.block(fin, ind + 1), pad)
            return out + "\n"
        if k == "def":
            _, name, params, guard, body = st
            ps = ", ".join(("%s %s" % ({"int": "int", "bool": "bool", "str": "string", "vec": "Vector"}[t], n) if t else n) for n, t in params)
            head = "%sdef %s(%s)" % (pad, name, ps) + (" : %s" % self.e(guard) if guard is not None else "")
            return "%s {\n%s%s}\n" % (head, self.block(body, ind + 1), pad)
        if k == "class":
            _, cname, attrs, (cparams, cbody), methods = st
            out = "%sclass %s {\n" % (pad, cname)
            for a in attrs:
                out += "%s  attr %s\n" % (pad, a)
            out += "%s  def %s(%s) {\n%s%s  }\n" % (pad, cname, ", ".join(cparams), self.block(cbody, ind + 2), pad)
            for m, ps, body in methods:
                out += "%s  def %s(%s) {\n%s%s  }\n" % (pad, m, ", ".join(ps), self.block(body, ind + 2), pad)
            return out + pad + "}\n"
        raise ValueError("stmt kind " + k)

    def program(self, stmts):
        return self.block(stmts, 0)
