"""chailang.gen - seeded, type-directed generator of ChaiScript programs over the documented core language.
Programs are ASTs (nested tuples, see the printer in printer.py) that terminate by construction: loops have literal trip counts,
recursion depth is bounded by literal arguments, integer values stay small (products and accumulations are reduced % 1000).
Scoping rules encoded here follow the documentation: a function body sees parameters, captures and globals only."""
import random

INT, BOOL, STR, VEC = "int", "bool", "str", "vec"


class Scope:
    def __init__(self, kind):
        self.kind = kind          # top | block | func | lambda | loop | method
        self.vars = {}            # name -> type
        self.protected = set()    # loop counters etc. that must not be assigned


class Gen:
    def __init__(self, rng, profile=None):
        self.rng = rng
        self.p = dict(DEFAULT_PROFILE)
        if profile:
            self.p.update(profile)
        self.scopes = [Scope("top")]
        self.globals = {}         # name -> type (visible everywhere)
        self.funcs = {}           # name -> (param types, ret type, recursion-bounded?)
        self.lambdas = {}         # var name -> (param types, ret type) (tracked per scope through vars type 'fun:N')
        self.classes = {}         # name -> dict(attrs={name:type}, methods={name:(ptypes, rtype)})
        self.n = 0
        self.depth = 0
        self.in_loop = 0
        self.in_func = None       # return type when inside a function body
        self.budget = self.p["size"]
        self.callee_levels = []
        self.leaf_only = False
        self.vec_frozen = 0
        self.impure = False          # set while generating a function body that writes to something it did not declare itself
        self.allow_impure = False    # impure callables may only be called at statement level (evaluation order is unspecified otherwise)

    # ------------------------------------------------------------ helpers
    def fresh(self, prefix="v"):
        self.n += 1
        return "%s%d" % (prefix, self.n)

    def visible(self, typ=None, assignable=False):
        out = []
        seen = set()
        for sc in reversed(self.scopes):
            for name, t in sc.vars.items():
                if name in seen:
                    continue
                seen.add(name)
                if typ is not None and t != typ:
                    continue
                if assignable and name in sc.protected:
                    continue
                out.append(name)
            if sc.kind in ("func", "lambda", "method"):
                break          # function bodies do not see the caller's / the top level's locals
        for name, t in self.globals.items():
            if name not in seen and (typ is None or t == typ):
                out.append(name)
        return out

    def note_write(self, name):
        """a write to a parameter, capture or global from inside a function body makes the function impure"""
        if self.in_func is None:
            return
        for sc in reversed(self.scopes):
            if sc.kind in ("func", "lambda", "method"):
                self.impure = True      # declared in the frame itself (parameter / capture / this) or not local at all
                return
            if name in sc.vars:
                return

    def declare(self, name, typ, protected=False):
        self.scopes[-1].vars[name] = typ
        if protected:
            self.scopes[-1].protected.add(name)

    def push(self, kind):
        self.scopes.append(Scope(kind))

    def pop(self):
        self.scopes.pop()

    def chance(self, key):
        return self.rng.random() < self.p[key]

    # ------------------------------------------------------------ expressions
    def expr(self, typ, depth=None):
        depth = self.p["expr_depth"] if depth is None else depth
        self.budget -= 1
        f = {INT: self.int_expr, BOOL: self.bool_expr, STR: self.str_expr, VEC: self.vec_expr}[typ]
        return f(depth)

    def small_int(self):
        r = self.rng
        return ("int", r.choice([0, 1, 2, 3, 5, 7, 10, 42, 100, 255, r.randrange(0, 1000)]))

    def int_expr(self, d):
        r = self.rng
        vs = self.visible(INT)
        if d <= 0 or r.random() < 0.25:
            if vs and r.random() < 0.6:
                return ("var", r.choice(vs))
            return self.small_int()
        k = r.random()
        if k < 0.40:
            op = r.choice(["+", "-", "*", "+", "-", "/", "%", "&", "|", "^", "<<", ">>"])
            a = self.int_expr(d - 1)
            if op in ("/", "%"):
                if r.random() < self.p["unguarded_div"]:
                    b = self.int_expr(d - 1)
                else:
                    b = ("int", r.choice([1, 2, 3, 7, 10]))
                return ("bin", op, a, b)
            if op in ("<<", ">>"):
                return ("bin", op, ("bin", "%", ("bin", "&", a, ("int", 255)), ("int", 64)), ("int", r.randrange(0, 5)))
            b = self.int_expr(d - 1)
            if op == "*":
                return ("bin", "%", ("bin", "*", ("bin", "%", a, ("int", 100)), ("bin", "%", b, ("int", 100))), ("int", 1000))
            if op in ("&", "|", "^"):
                return ("bin", op, ("bin", "&", a, ("int", 1023)), ("bin", "&", b, ("int", 1023)))
            return ("bin", "%", ("bin", op, a, b), ("int", 10007))
        if k < 0.48:
            return ("un", "-", self.int_expr(d - 1))
        if k < 0.58:
            return ("tern", self.bool_expr(d - 1), self.int_expr(d - 1), self.int_expr(d - 1))
        if k < 0.72:
            c = self.call_expr(INT, d - 1)
            if c:
                return c
        if k < 0.80:
            vv = self.visible(VEC)
            if vv:
                v = r.choice(vv)
                if r.random() < 0.5:
                    return ("size", ("var", v))
                # guarded index: never out of range for a non-empty vector, 0 otherwise
                i = self.int_expr(0)
                return ("tern", ("bin", ">", ("size", ("var", v)), ("int", 0)),
                        ("index", ("var", v), ("bin", "%", ("bin", "&", i, ("int", 1023)), ("size", ("var", v)))), ("int", 0))
        if k < 0.85:
            ss = self.visible(STR)
            if ss:
                return ("size", ("var", r.choice(ss)))
        if k < 0.90 and self.p["objects"]:
            o = self.obj_access(INT)
            if o:
                return o
        if vs:
            return ("var", r.choice(vs))
        return self.small_int()

    def bool_expr(self, d):
        r = self.rng
        vs = self.visible(BOOL)
        if d <= 0 or r.random() < 0.2:
            if vs and r.random() < 0.5:
                return ("var", r.choice(vs))
            return ("bool", r.random() < 0.5)
        k = r.random()
        if k < 0.45:
            return ("bin", r.choice(["<", "<=", ">", ">=", "==", "!="]), self.int_expr(d - 1), self.int_expr(d - 1))
        if k < 0.65:
            return ("bin", r.choice(["&&", "||"]), self.bool_expr(d - 1), self.bool_expr(d - 1))
        if k < 0.75:
            return ("un", "!", self.bool_expr(d - 1))
        if k < 0.82:
            return ("bin", r.choice(["==", "!="]), self.str_expr(d - 1), self.str_expr(d - 1))
        if k < 0.90:
            c = self.call_expr(BOOL, d - 1)
            if c:
                return c
        if k < 0.94:
            return ("tern", self.bool_expr(d - 1), self.bool_expr(d - 1), self.bool_expr(d - 1))
        return ("bool", r.random() < 0.5)

    def str_expr(self, d):
        r = self.rng
        vs = self.visible(STR)
        if d <= 0 or r.random() < 0.35:
            if vs and r.random() < 0.5:
                return ("var", r.choice(vs))
            return ("str", r.choice(["", "a", "b", "ab", "xyz", "hello", " ", "0", "A-Z"]))
        k = r.random()
        if k < 0.4:
            return ("bin", "+", self.str_expr(d - 1), self.str_expr(d - 1))
        if k < 0.6:
            return ("tostr", self.int_expr(d - 1))
        if k < 0.7:
            return ("tostr", self.bool_expr(d - 1))
        if k < 0.8:
            c = self.call_expr(STR, d - 1)
            if c:
                return c
        if k < 0.9:
            return ("tern", self.bool_expr(d - 1), self.str_expr(d - 1), self.str_expr(d - 1))
        if k < 0.95 and self.p["interp"]:
            return ("interp", [("str", r.choice(["", "x=", "[", " "])), self.int_expr(d - 1), ("str", r.choice(["", "]", ";"]))])
        return ("str", r.choice(["q", "zz", ""]))

    def vec_expr(self, d):
        r = self.rng
        vs = self.visible(VEC)
        if vs and r.random() < 0.3:
            return ("var", r.choice(vs))
        n = r.randrange(0, 5)
        return ("vec", [self.int_expr(max(0, d - 1)) for _ in range(n)])

    def call_expr(self, rtyp, d):
        r = self.rng
        def usable(impure):
            return self.allow_impure or not impure
        cands = [(n, sig) for n, sig in self.funcs.items() if sig[1] == rtyp and sig[2] <= self.call_budget() and usable(len(sig) > 5 and sig[5])]
        lam = []
        for name in self.visible():
            t = self.type_of(name)
            if isinstance(t, tuple) and t[0] == "fun" and t[2] == rtyp and t[3] <= self.call_budget() and usable(len(t) > 4 and t[4]):
                lam.append((name, t))
        if not cands and not lam:
            return None
        if lam and (not cands or r.random() < 0.4):
            name, t = r.choice(lam)
            self.callee_levels.append(t[3])
            saved_allow, self.allow_impure = self.allow_impure, False
            largs = [self.arg_for(pt, d) for pt in t[1]]
            self.allow_impure = saved_allow
            return ("call", name, largs)
        name, sig = r.choice(cands)
        args = []
        saved_allow, self.allow_impure = self.allow_impure, False        # arguments are ordinary (pure) expressions
        mut = sig[4] if len(sig) > 4 else [False] * len(sig[0])
        for pt, m in zip(sig[0], mut):
            if m:
                # the callee assigns to this parameter, which aliases the argument: pass an assignable variable
                vs = self.visible(pt, assignable=True)
                if not vs:
                    self.allow_impure = saved_allow
                    return None
                av = r.choice(vs)
                self.note_write(av)
                args.append(("var", av))
            else:
                args.append(self.arg_for(pt, d))
        self.allow_impure = saved_allow
        self.callee_levels.append(sig[2])
        if sig[3]:       # recursion-bounded first parameter: small literal
            args[0] = ("int", r.randrange(0, self.p["rec_depth"]))
        return ("call", name, args)

    def call_budget(self):
        """cost control: inside loops, lambdas and methods only leaf functions (level 1: no calls) may be called"""
        if self.in_loop >= 1 or self.leaf_only:
            return 1
        return 3

    def arg_for(self, pt, d):
        if pt == VEC:
            vs = self.visible(VEC)
            if vs:
                return ("var", self.rng.choice(vs))
            return ("vec", [self.small_int() for _ in range(self.rng.randrange(0, 4))])
        return self.expr(pt, max(0, d - 1))

    def type_of(self, name):
        for sc in reversed(self.scopes):
            if name in sc.vars:
                return sc.vars[name]
            if sc.kind in ("func", "lambda", "method"):
                break
        return self.globals.get(name)

    def obj_access(self, typ):
        r = self.rng
        objs = [n for n in self.visible() if isinstance(self.type_of(n), tuple) and self.type_of(n)[0] == "obj"]
        if not objs:
            return None
        if self.in_loop >= 2:
            objs = []            # attribute access only in deep loops (cost control)
            return None
        o = r.choice(objs)
        cls = self.classes[self.type_of(o)[1]]
        attrs = [a for a, t in cls["attrs"].items() if t == typ]
        meths = [(m, s) for m, s in cls["methods"].items() if s[1] == typ and (self.allow_impure or not s[2])]
        if meths and (not attrs or r.random() < 0.5):
            m, s = r.choice(meths)
            return ("mcall", ("var", o), m, [self.expr(pt, 1) for pt in s[0]])
        if attrs:
            return ("attr", ("var", o), r.choice(attrs))
        return None

    # ------------------------------------------------------------ statements
    def block(self, kind="block", n=None, pre=None):
        self.push(kind)
        if pre:
            pre()
        out = []
        n = self.rng.randrange(1, self.p["block_len"]) if n is None else n
        self.depth += 1
        for _ in range(n):
            if self.budget <= 0:
                break
            s = self.stmt()
            if s:
                out.extend(s)
        self.depth -= 1
        self.pop()
        if not out:
            out = [("expr", ("int", 0))]
        return out

    def stmt(self):
        r = self.rng
        self.budget -= 2
        deep = self.depth >= self.p["max_depth"]
        table = [("decl", 18), ("assign", 16), ("print", 14), ("expr", 6)]
        if not deep:
            table += [("if", 10), ("for", 7), ("while", 4), ("rfor", 4), ("block", 3), ("switch", self.p["w_switch"]), ("try", self.p["w_try"])]
        if self.p.get("w_throw"):
            table += [("throw", self.p["w_throw"])]
        if self.in_loop:
            table += [("break", 2), ("continue", 2)]
        if self.in_func is not None:
            table += [("return", 4)]
        if self.depth == 0 or (self.p["nested_defs"] and not deep):
            table += [("def", self.p["w_def"]), ("lambda", self.p["w_lambda"])]
        if self.depth == 0 and self.p["objects"]:
            table += [("class", 3), ("newobj", 3)]
        if self.depth == 0:
            table += [("global", 2)]
        table += [("ref", 3), ("vecop", 6), ("objop", 4 if self.p["objects"] else 0), ("incr", 4)]
        total = sum(w for _, w in table)
        x = r.uniform(0, total)
        for kind, w in table:
            x -= w
            if x <= 0:
                break
        return getattr(self, "s_" + kind)()

    def s_decl(self):
        r = self.rng
        t = r.choice([INT, INT, INT, BOOL, STR, VEC])
        # occasionally shadow a visible name (in an inner scope only)
        name = None
        if len(self.scopes) > 1 and self.scopes[-1].kind in ("block", "loop") and r.random() < self.p["shadow"]:
            outer = [n for n in self.visible() if n not in self.scopes[-1].vars and not isinstance(self.type_of(n), tuple)
                     and n not in self.globals and not self.is_protected(n)]
            if outer:
                name = r.choice(outer)
        e = self.expr(t)
        name = name or self.fresh()
        self.declare(name, t)
        return [(r.choice(["decl", "decl", "auto"]), name, e)]

    def is_protected(self, name):
        for sc in reversed(self.scopes):
            if name in sc.vars:
                return name in sc.protected
        return False

    def s_global(self):
        name = self.fresh("g")
        t = self.rng.choice([INT, INT, STR, BOOL])
        e = self.expr(t)
        self.globals[name] = t
        return [("global", name, e)]

    def s_ref(self):
        r = self.rng
        t = r.choice([INT, STR, BOOL, VEC])
        vs = [v for v in self.visible(t, assignable=True) if v not in self.globals]
        if not vs:
            return self.s_decl()
        name = self.fresh("r")
        target = r.choice(vs)
        self.declare(name, t)
        return [("ref", name, target)]

    def s_assign(self):
        r = self.rng
        t = r.choice([INT, INT, INT, BOOL, STR])
        vs = self.visible(t, assignable=True)
        if not vs:
            return self.s_decl()
        v = r.choice(vs)
        self.note_write(v)
        if t == INT:
            op = r.choice(["=", "=", "+=", "-=", "*=", "=", "%=", "&=", "|="])
            if op == "=":
                return [("assign", ("var", v), "=", self.int_expr(self.p["expr_depth"]))]
            if op == "*=":
                return [("assign", ("var", v), "=", ("bin", "%", ("bin", "*", ("bin", "%", ("var", v), ("int", 100)), ("int", r.randrange(0, 9))), ("int", 1000)))]
            if op in ("%=",):
                return [("assign", ("var", v), op, ("int", r.choice([2, 3, 10, 97])))]
            if op in ("&=", "|="):
                return [("assign", ("var", v), op, ("int", r.randrange(0, 256)))]
            return [("assign", ("var", v), op, ("bin", "%", self.int_expr(1), ("int", 1000))),
                    ("assign", ("var", v), "%=", ("int", 100003))]
        if t == STR:
            if r.random() < 0.5:
                return [("assign", ("var", v), "+=", ("str", r.choice(["a", "b", "", "-"])))]
            return [("assign", ("var", v), "=", self.str_expr(1))]
        return [("assign", ("var", v), "=", self.bool_expr(self.p["expr_depth"]))]

    def s_incr(self):
        vs = self.visible(INT, assignable=True)
        if not vs:
            return self.s_decl()
        v = self.rng.choice(vs)
        self.note_write(v)
        return [("incr", v, self.rng.choice(["++", "--"]))]

    def s_print(self):
        t = self.rng.choice([INT, INT, BOOL, STR, VEC])
        if t == VEC:
            vs = self.visible(VEC)
            if not vs:
                t = INT
            else:
                return [("print", ("tostr", ("var", self.rng.choice(vs))))]
        return [("print", self.expr(t))]

    def s_expr(self):
        # unused results: calls and bare constants / identifiers
        r = self.rng
        if r.random() < 0.6:
            saved_allow, self.allow_impure = self.allow_impure, True        # the call is the whole statement
            c = self.call_expr(r.choice([INT, BOOL, STR]), 1)
            self.allow_impure = saved_allow
            if c:
                if r.random() < 0.4:
                    name = self.fresh()
                    t = self.funcs[c[1]][1] if c[1] in self.funcs else self.type_of(c[1])[2]
                    self.declare(name, t)
                    return [("decl", name, c)]
                return [("expr", c)]
        if r.random() < 0.5:
            vs = self.visible()
            vs = [v for v in vs if not isinstance(self.type_of(v), tuple)]
            if vs:
                return [("expr", ("var", r.choice(vs)))]
        return [("expr", self.expr(r.choice([INT, BOOL, STR]), 1))]

    def s_block(self):
        return [("block", self.block())]

    def s_if(self):
        r = self.rng
        arms = [(self.bool_expr(self.p["expr_depth"]), self.block())]
        for _ in range(r.choice([0, 0, 1, 2])):
            arms.append((self.bool_expr(self.p["expr_depth"]), self.block()))
        els = self.block() if r.random() < 0.6 else None
        return [("if", arms, els)]

    def s_for(self):
        r = self.rng
        i = self.fresh("i")
        lo = r.choice([0, 0, 1, 2])
        hi = lo + r.randrange(0, self.p["trip"])
        style = r.choice(["<", "<", "<", "<=", "!="]) if self.p["for_variants"] else "<"
        step = r.choice(["++i", "++i", "++i", "i+=1"]) if self.p["for_variants"] else "++i"
        self.in_loop += 1
        body = self.block("loop", pre=lambda: self.declare(i, INT, protected=True))
        self.in_loop -= 1
        return [("for", i, lo, hi, style, step, body)]

    def s_while(self):
        r = self.rng
        k = self.fresh("k")
        self.declare(k, INT, protected=True)
        n = r.randrange(0, self.p["trip"])
        extra = self.bool_expr(1) if r.random() < 0.4 else None
        self.in_loop += 1
        body = self.block("loop")
        self.in_loop -= 1
        return [("decl", k, ("int", 0)), ("while", k, n, extra, body)]

    def s_rfor(self):
        r = self.rng
        x = self.fresh("x")
        vs = self.visible(VEC)
        if vs and r.random() < 0.6:
            src = ("var", r.choice(vs))
            # the body must not modify the vector it iterates (documented carve-out): protect it
            protected = src[1]
        else:
            src = ("vec", [self.int_expr(1) for _ in range(r.randrange(0, self.p["trip"]))])
            protected = None
        self.in_loop += 1
        saved = None
        if protected:
            saved = self.protect(protected)
            self.vec_frozen += 1          # no structural modification of any vector (aliases!) while one is being iterated
        body = self.block("loop", pre=lambda: self.declare(x, INT, protected=True))
        if protected:
            self.unprotect(protected, saved)
            self.vec_frozen -= 1
        self.in_loop -= 1
        return [("rfor", x, src, body)]

    def protect(self, name):
        for sc in reversed(self.scopes):
            if name in sc.vars:
                was = name in sc.protected
                sc.protected.add(name)
                return (sc, was)
        return None

    def unprotect(self, name, saved):
        if saved and not saved[1]:
            saved[0].protected.discard(name)

    def s_break(self):
        # conditional so that code after it stays reachable
        return [("if", [(self.bool_expr(1), [("break",)])], None)]

    def s_continue(self):
        return [("if", [(self.bool_expr(1), [("continue",)])], None)]

    def s_return(self):
        e = self.expr(self.in_func) if self.in_func != "void" else None
        if self.rng.random() < 0.5:
            return [("if", [(self.bool_expr(1), [("return", e)])], None)]
        return [("return", e)]

    def s_throw(self):
        # rarely taken, uncaught unless an enclosing try exists
        r = self.rng
        return [("if", [(("bin", "==", self.int_expr(1), ("int", r.randrange(0, 50))), [("throw", self.expr(r.choice([INT, STR]), 1))])], None)]

    def s_switch(self):
        r = self.rng
        e = ("bin", "%", ("bin", "&", self.int_expr(1), ("int", 1023)), ("int", 5))
        cases = []
        vals = r.sample(range(0, 6), r.randrange(1, 4))
        for v in vals:
            cases.append((v, self.block(n=r.randrange(1, 3)), r.random() < 0.6))
        default = self.block(n=1) if r.random() < 0.6 else None
        return [("switch", e, cases, default)]

    def s_try(self):
        r = self.rng
        # the whole try body is one scope: generate it as such
        self.push("block")
        self.depth += 1
        body = self.block_inline(r.randrange(1, self.p["block_len"]))
        if r.random() < 0.7:
            body.append(("if", [(self.bool_expr(1), [("throw", self.expr(r.choice([INT, STR]), 1))])], None))
            body += self.block_inline(1)
        self.depth -= 1
        self.pop()
        if not body:
            body = [("expr", ("int", 0))]
        ev = self.fresh("e")
        cb = self.block(n=r.randrange(1, 3))
        fin = self.block(n=1) if r.random() < 0.4 else None
        return [("try", body, ev, cb, fin)]

    def s_vecop(self):
        r = self.rng
        vs = self.visible(VEC, assignable=True)
        if not vs:
            name = self.fresh()
            e = self.vec_expr(1)
            self.declare(name, VEC)
            return [("decl", name, e)]
        v = r.choice(vs)
        self.note_write(v)
        k = r.random()
        if self.vec_frozen:
            k = max(k, 0.45)
        if k < 0.45:
            return [("expr", ("mcall", ("var", v), "push_back", [self.int_expr(1)]))]
        if k < 0.75:
            i = self.int_expr(0)
            idx = ("bin", "%", ("bin", "&", i, ("int", 1023)), ("size", ("var", v)))
            return [("if", [(("bin", ">", ("size", ("var", v)), ("int", 0)),
                             [("assign", ("index", ("var", v), idx), r.choice(["=", "+=", "="]), ("bin", "%", self.int_expr(1), ("int", 1000)))])], None)]
        if k < 0.85:
            name = self.fresh()
            self.declare(name, VEC)
            return [("decl", name, ("var", v))]          # container copy
        return [("print", ("tostr", ("var", v)))]

    def s_def(self):
        r = self.rng
        name = self.fresh("f")
        nparams = r.randrange(0, 4)
        ptypes = [r.choice([INT, INT, INT, BOOL, STR, VEC]) for _ in range(nparams)]
        rt = r.choice([INT, INT, BOOL, STR])
        recursive = r.random() < self.p["recursion"] and rt == INT
        if recursive:
            ptypes = [INT] + ptypes[:2]
        params = [(self.fresh("p"), t) for t in ptypes]
        typed = [r.random() < self.p["typed_params"] for _ in params]
        guard = None
        saved = (self.in_func, self.in_loop, self.depth)
        self.in_func, self.in_loop = rt, 0
        self.push("func")
        mut = [(not recursive) and pt != VEC and r.random() < self.p["mut_params"] for (_, pt) in params]
        for (pn, pt), m in zip(params, mut):
            self.declare(pn, pt, protected=not m)
        if r.random() < self.p["guards"] and params and not recursive:
            guard = self.bool_expr(1)
        saved_levels, self.callee_levels = self.callee_levels, []
        saved_impure, self.impure = self.impure, any(mut)
        body = []
        if recursive:
            self.funcs[name] = (ptypes, rt, 99, True, mut, False)      # not callable from its own body except through the explicit self call
            n0 = params[0][0]
            rec_args = [("bin", "-", ("var", n0), ("int", 1))] + [self.expr(pt, 1) for pt in ptypes[1:]]
            body.append(("if", [(("bin", "<=", ("var", n0), ("int", 0)), [("return", self.small_int())])], None))
            self.depth += 1
            body += self.block_inline(r.randrange(0, 3))
            self.depth -= 1
            body.append(("return", ("bin", "%", ("bin", "+", ("call", name, rec_args), self.int_expr(1)), ("int", 1000))))
        else:
            self.depth += 1
            body = self.block_inline(r.randrange(1, self.p["block_len"]))
            self.depth -= 1
            last = self.expr(rt)
            body.append(("return", last) if r.random() < 0.5 else ("expr", last))
        self.pop()
        self.in_func, self.in_loop, self.depth = saved
        level = 1 + max(self.callee_levels + [0])
        self.callee_levels = saved_levels
        self.funcs[name] = (ptypes, rt, max(level, 2) if recursive else level, recursive, mut, self.impure)
        self.impure = saved_impure
        return [("def", name, [(pn, pt if ty else None) for (pn, pt), ty in zip(params, typed)], guard, body)]

    def block_inline(self, n):
        out = []
        for _ in range(n):
            if self.budget <= 0:
                break
            s = self.stmt()
            if s:
                out.extend(s)
        return out

    def s_lambda(self):
        r = self.rng
        name = self.fresh("l")
        ptypes = [r.choice([INT, INT, BOOL, STR]) for _ in range(r.randrange(0, 3))]
        rt = r.choice([INT, INT, BOOL, STR])
        caps = []
        cand = [v for v in self.visible() if not isinstance(self.type_of(v), tuple) and v not in self.globals]
        r.shuffle(cand)
        caps = cand[:r.randrange(0, 3)]
        params = [(self.fresh("p"), t) for t in ptypes]
        captypes = [(c, self.type_of(c), self.is_protected(c)) for c in caps]
        saved = (self.in_func, self.in_loop, self.depth)
        self.in_func, self.in_loop = rt, 0
        self.push("lambda")
        for c, t, prot in captypes:
            self.declare(c, t, protected=prot or t == VEC)
        for pn, pt in params:
            self.declare(pn, pt, protected=True)
        saved_leaf, self.leaf_only = self.leaf_only, True
        saved_impure, self.impure = self.impure, False
        self.depth = self.p["max_depth"]            # simple statements only
        body = self.block_inline(r.randrange(0, 3))
        body.append(("expr", self.expr(rt)) if r.random() < 0.6 else ("return", self.expr(rt)))
        self.leaf_only = saved_leaf
        self.pop()
        self.in_func, self.in_loop, self.depth = saved
        lam_impure, self.impure = self.impure, saved_impure
        self.declare(name, ("fun", tuple(ptypes), rt, 2, lam_impure))
        return [("decl", name, ("lambda", caps, [pn for pn, _ in params], body))]

    def s_class(self):
        r = self.rng
        cname = "C%d" % (len(self.classes) + 1)
        attrs = {}
        for _ in range(r.randrange(1, 4)):
            attrs[self.fresh("a")] = r.choice([INT, INT, STR, BOOL])
        cls = {"attrs": attrs, "methods": {}, "ctor": None}
        self.classes[cname] = cls
        ctor_params = [(self.fresh("p"), t) for t in attrs.values()]
        ctor_body = [("assign", ("attr", ("var", "this"), a), "=", ("var", pn)) for a, (pn, _) in zip(attrs, ctor_params)]
        methods = []
        saved = (self.in_func, self.in_loop, self.depth)
        for _ in range(r.randrange(1, 4)):
            mname = self.fresh("m")
            ptypes = [r.choice([INT, BOOL, STR]) for _ in range(r.randrange(0, 3))]
            rt = r.choice([INT, INT, STR, BOOL])
            params = [(self.fresh("p"), t) for t in ptypes]
            self.in_func, self.in_loop = rt, 0
            self.push("method")
            self.declare("this", ("obj", cname), protected=True)
            for pn, pt in params:
                self.declare(pn, pt, protected=True)
            saved_leaf, self.leaf_only = self.leaf_only, True
            saved_impure, self.impure = self.impure, False
            self.depth = self.p["max_depth"]
            body = []
            ia = [a for a, t in attrs.items() if t == INT]
            if ia and r.random() < 0.6:
                self.impure = True
                a = r.choice(ia)
                body.append(("assign", ("attr", ("var", "this"), a), "=", ("bin", "%", ("bin", "+", ("attr", ("var", "this"), a), self.int_expr(1)), ("int", 1000))))
            body += self.block_inline(r.randrange(0, 2))
            body.append(("expr", self.expr(rt)) if r.random() < 0.5 else ("return", self.expr(rt)))
            self.leaf_only = saved_leaf
            self.pop()
            cls["methods"][mname] = (ptypes, rt, self.impure)
            self.impure = saved_impure
            methods.append((mname, [pn for pn, _ in params], body))
        self.in_func, self.in_loop, self.depth = saved
        cls["ctor"] = [t for _, t in ctor_params]
        return [("class", cname, list(attrs), ([pn for pn, _ in ctor_params], ctor_body), methods)]

    def s_newobj(self):
        if not self.classes:
            return self.s_class()
        r = self.rng
        cname = r.choice(list(self.classes))
        name = self.fresh("o")
        args = [self.expr(t, 1) for t in self.classes[cname]["ctor"]]
        self.declare(name, ("obj", cname))
        return [("decl", name, ("call", cname, args))]

    def s_objop(self):
        r = self.rng
        objs = [n for n in self.visible() if isinstance(self.type_of(n), tuple) and self.type_of(n)[0] == "obj" and n != "this"]
        if not objs:
            return self.s_print()
        o = r.choice(objs)
        cls = self.classes[self.type_of(o)[1]]
        k = r.random()
        if k < 0.4 and cls["methods"]:
            m, s = r.choice(list(cls["methods"].items()))
            return [("print", ("mcall", ("var", o), m, [self.expr(pt, 1) for pt in s[0]]))]      # the call is the whole printed expression
        if k < 0.7:
            a, t = r.choice(list(cls["attrs"].items()))
            return [("assign", ("attr", ("var", o), a), "=", self.expr(t, 1))]
        if k < 0.85:
            name = self.fresh("o")
            self.declare(name, self.type_of(o))
            return [("decl", name, ("var", o))]       # object copy
        a, t = r.choice(list(cls["attrs"].items()))
        return [("print", ("attr", ("var", o), a))]

    # ------------------------------------------------------------ whole program
    def program(self):
        out = []
        n = self.rng.randrange(self.p["top_min"], self.p["top_max"])
        while len(out) < n and self.budget > 0:
            s = self.stmt()
            if s:
                out.extend(s)
        # final value: an expression statement of a printable type
        out.append(("expr", self.expr(self.rng.choice([INT, INT, BOOL, STR]), 2)))
        return out


DEFAULT_PROFILE = {
    "size": 400, "expr_depth": 3, "block_len": 4, "max_depth": 3, "trip": 5, "rec_depth": 6, "top_min": 4, "top_max": 14,
    "unguarded_div": 0.03, "shadow": 0.3, "typed_params": 0.4, "mut_params": 0.25, "guards": 0.25, "recursion": 0.25, "nested_defs": False,
    "w_def": 8, "w_lambda": 6, "w_switch": 4, "w_try": 3, "objects": True, "interp": True, "for_variants": True,
}
