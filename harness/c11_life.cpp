// C11: objects live exactly as long as something refers to them.
//  T src   fresh engine (inside the case, destroyed before the final audit); instrumented class Tracked with an instance registry;
//          harness functions taking / returning it by value, &, const&, *, shared_ptr, unique_ptr, through conversions and
//          std::function callbacks; probes expect_dead(tag) / expect_alive(tag) / settle() callable from script.
//  -> cls, reason, stdout, constructed, destroyed, live-after-engine-destruction, failures...
#include "common.hpp"
#include <set>

using namespace chaiscript;

struct Registry {
  struct Info {
    int tag;
    bool alive;
  };
  std::map<long, Info> inst;
  long next_id = 1;
  long constructed = 0, destroyed = 0;
  std::vector<std::string> failures;
  void fail(const std::string &s) {
    if (failures.size() < 12) failures.push_back(s);
  }
  long live_with_tag(int tag) const {
    long n = 0;
    for (auto &kv : inst) {
      if (kv.second.alive && kv.second.tag == tag) ++n;
    }
    return n;
  }
  long live() const {
    long n = 0;
    for (auto &kv : inst) {
      if (kv.second.alive) ++n;
    }
    return n;
  }
};
static Registry *g_reg = nullptr;

struct Tracked {
  static constexpr unsigned MAGIC = 0x7ac4ed01u;
  long id;
  int tag;
  unsigned magic;
  explicit Tracked(int t)
      : id(g_reg->next_id++)
      , tag(t)
      , magic(MAGIC) {
    g_reg->inst[id] = {tag, true};
    ++g_reg->constructed;
  }
  Tracked(const Tracked &o)
      : id(g_reg->next_id++)
      , tag(o.tag)
      , magic(MAGIC) {
    o.check("copied-from");
    g_reg->inst[id] = {tag, true};
    ++g_reg->constructed;
  }
  Tracked &operator=(const Tracked &o) {
    check("assigned-to");
    o.check("assigned-from");
    tag = o.tag;
    g_reg->inst[id].tag = tag;
    return *this;
  }
  virtual ~Tracked() {
    auto it = g_reg->inst.find(id);
    if (magic != MAGIC || it == g_reg->inst.end() || !it->second.alive) {
      g_reg->fail("destroyed-twice-or-corrupt id=" + std::to_string(id));
    } else {
      it->second.alive = false;
      ++g_reg->destroyed;
    }
    magic = 0xdeadbeefu;
  }
  void check(const char *what) const {
    auto it = g_reg->inst.find(id);
    if (magic != MAGIC || it == g_reg->inst.end() || !it->second.alive) {
      g_reg->fail(std::string("use-after-destroy (") + what + ") id=" + std::to_string(id));
    }
  }
  int touch() const {
    check("touch");
    return tag;
  }
  void set_tag(int t) {
    check("set_tag");
    tag = t;
    g_reg->inst[id].tag = t;
  }
};

struct Derived_Tracked : Tracked {
  explicit Derived_Tracked(int t)
      : Tracked(t) {
  }
};

// an object with a data member of the instrumented class: references into it are only valid while the holder lives
struct Holder {
  Tracked inner;
  explicit Holder(int t)
      : inner(t) {
  }
  Tracked &get_inner() { return inner; }
};

int main(int argc, char **argv) {
  return vh::run_main(argc, argv, [](size_t, const vh::Fields &f) -> vh::Fields {
    if (f.size() < 2 || f[0] != "T") return {"bad-case"};
    Registry reg;
    g_reg = &reg;
    std::vector<std::shared_ptr<Tracked>> kept;
    std::vector<std::function<int()>> kept_callbacks;
    vh::Outcome o;
    std::string out;
    {
      auto chai = vh::make_engine(true);
      chai->add(user_type<Tracked>(), "Tracked");
      chai->add(constructor<Tracked(int)>(), "Tracked");
      chai->add(constructor<Tracked(const Tracked &)>(), "Tracked");
      chai->add(fun(&Tracked::operator=), "=");
      chai->add(fun(&Tracked::touch), "touch");
      chai->add(fun(&Tracked::set_tag), "set_tag");
      chai->add(fun(&Tracked::tag), "tag");
      chai->add(user_type<Derived_Tracked>(), "Derived_Tracked");
      chai->add(constructor<Derived_Tracked(int)>(), "Derived_Tracked");
      chai->add(constructor<Derived_Tracked(const Derived_Tracked &)>(), "Derived_Tracked");
      chai->add(base_class<Tracked, Derived_Tracked>());
      chai->add(type_conversion<int, Tracked>([](const int &i) { return Tracked(1000 + i); }));
      chai->add(fun([](Tracked t) { return t.touch(); }), "by_value");
      chai->add(fun([](Tracked &t) { return t.touch(); }), "by_ref");
      chai->add(fun([](const Tracked &t) { return t.touch(); }), "by_cref");
      chai->add(fun([](Tracked *t) { return t->touch(); }), "by_ptr");
      chai->add(fun([](const Tracked *t) { return t->touch(); }), "by_cptr");
      chai->add(fun([](std::shared_ptr<Tracked> t) { return t->touch(); }), "by_shared");
      chai->add(fun([](const std::shared_ptr<const Tracked> &t) { return t->touch(); }), "by_cshared");
      chai->add(fun([](int tag) { return Tracked(tag); }), "make_value");
      // functions that hand back a reference / pointer to their own argument
      chai->add(fun([](const Tracked &t) -> const Tracked & { return t; }), "pick_cref");
      chai->add(fun([](Tracked &t) -> Tracked & { return t; }), "pick_ref");
      chai->add(fun([](Tracked *t) -> Tracked * { return t; }), "pick_ptr");
      chai->add(user_type<Holder>(), "Holder");
      chai->add(constructor<Holder(int)>(), "Holder");
      chai->add(constructor<Holder(const Holder &)>(), "Holder");
      chai->add(fun(&Holder::inner), "inner");
      chai->add(fun(&Holder::get_inner), "get_inner");
      chai->add(fun([](int tag) { return Holder(tag); }), "make_holder");
      chai->add(fun([](int tag) { return std::make_shared<Tracked>(tag); }), "make_shared_t");
      chai->add(fun([](int tag) { return std::make_unique<Tracked>(tag); }), "make_unique_t");
      chai->add(fun([&kept](const std::shared_ptr<Tracked> &t) { kept.push_back(t); }), "keep");
      chai->add(fun([&kept]() { kept.clear(); }), "release_all");
      chai->add(fun([&kept_callbacks](const std::function<int()> &cb) { kept_callbacks.push_back(cb); }), "keep_callback");
      chai->add(fun([&kept_callbacks]() {
                  int s = 0;
                  for (auto &c : kept_callbacks) s += c();
                  return s;
                }),
                "run_callbacks");
      chai->add(fun([&kept_callbacks]() { kept_callbacks.clear(); }), "release_callbacks");
      chai->add(fun([](const std::function<int(int)> &cb, int v) { return cb(v); }), "call_with");
      // the C++ function keeps using its (possibly converted) argument after a script callback has run
      chai->add(fun([](const Tracked &t, const std::function<int()> &cb) {
                  int a = cb();
                  return a + t.touch();
                }),
                "use_after_callback");
      chai->add(fun([]() {}), "settle");
      chai->add(fun([&reg](int tag) {
                  long n = reg.live_with_tag(tag);
                  if (n != 0) reg.fail("still-alive-after-last-referrer-gone tag=" + std::to_string(tag) + " live=" + std::to_string(n));
                }),
                "expect_dead");
      chai->add(fun([&reg](int tag) {
                  if (reg.live_with_tag(tag) == 0) reg.fail("destroyed-while-still-referred-to tag=" + std::to_string(tag));
                }),
                "expect_alive");
      vh::Capture cap;
      cap.begin();
      const bool read_result = f.size() > 2 && f[2] == "read-result";
      o = vh::classify([&]() -> std::string {
        Boxed_Value result = chai->eval(f[1]);
        // the value eval() hands to C++ is a referrer too: reading it must be safe
        if (read_result) return vh::render(result);
        return "";
      });
      out = cap.end();
      kept_callbacks.clear();
    }
    // the engine is gone; C++-held references are released last
    kept.clear();
    const long live = reg.live();
    vh::Fields r{o.cls, o.what, out, std::to_string(reg.constructed), std::to_string(reg.destroyed), std::to_string(live)};
    for (auto &x : reg.failures) r.push_back(x);
    g_reg = nullptr;
    return r;
  });
}
