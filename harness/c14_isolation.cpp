// C14: engine instances are isolated. One case = one history over up to 6 engine slots.
//  H op op op ...   ops (':' separated fields):
//    create:<slot>:<how>            how = heap | fixed (placement-new into a per-slot fixed buffer: same address every time)
//    destroy:<slot>:<thread>
//    eval:<slot>:<thread>:<src>     evaluate src (a definition); must succeed
//    addfn:<slot>:<thread>:<name>:<k>     chai.add(fun([k](int x){return x+k;}), name)
//    addconv:<slot>:<thread>:<ca|cb|cc>:<k>   chai.add(type_conversion<Src<N>, Tgt<N>>(... Tgt<N>{k}))
//    use:<slot>:<thread>:<file>
//    probe:<slot>:<thread>:<expr>:<expected rendering or !ERR>
//  thread 0 is the main thread, 1..3 are long-lived workers (per-thread engine state lives as long as they do).
//  -> one field per failed expectation (empty list = history held); first field = number of probes executed
#include "common.hpp"
#include <condition_variable>
#include <mutex>
#include <thread>

using namespace chaiscript;

struct Worker {
  std::thread th;
  std::mutex m;
  std::condition_variable cv;
  std::function<void()> job;
  bool has_job = false, done = false, quit = false;
  void start() {
    th = std::thread([this] {
      std::unique_lock<std::mutex> l(m);
      while (true) {
        cv.wait(l, [this] { return has_job || quit; });
        if (quit) return;
        job();
        has_job = false;
        done = true;
        cv.notify_all();
      }
    });
  }
  void run(std::function<void()> j) {
    std::unique_lock<std::mutex> l(m);
    job = std::move(j);
    has_job = true;
    done = false;
    cv.notify_all();
    cv.wait(l, [this] { return done; });
  }
  void stop() {
    {
      std::unique_lock<std::mutex> l(m);
      quit = true;
      cv.notify_all();
    }
    th.join();
  }
};

// user conversions: three source types, one target; which conversions exist is per engine
template<int N> struct Tgt {
  int v;
};
template<int N> struct Src {
  int v = N;
};
template<int N> static void add_conv(ChaiScript_Basic &c, int k) {
  c.add(type_conversion<Src<N>, Tgt<N>>([k](const Src<N> &) { return Tgt<N>{k}; }));
}

// registered type names: the same name may denote a different C++ type in each engine
template<int N> struct TyTag {};
static int tyidx(const Type_Info &ti) {
  if (ti.bare_equal(user_type<TyTag<0>>())) return 0;
  if (ti.bare_equal(user_type<TyTag<1>>())) return 1;
  if (ti.bare_equal(user_type<TyTag<2>>())) return 2;
  return -1;
}

constexpr int NSLOTS = 6;
alignas(64) static unsigned char g_fixed[NSLOTS][sizeof(ChaiScript_Basic)];
static ChaiScript_Basic *g_eng[NSLOTS] = {};
static bool g_is_fixed[NSLOTS] = {};
static int g_use_counts[NSLOTS] = {};

static std::vector<std::string> split(const std::string &s, char c, size_t maxparts) {
  std::vector<std::string> out;
  size_t p = 0;
  while (out.size() + 1 < maxparts) {
    size_t e = s.find(c, p);
    if (e == std::string::npos) break;
    out.push_back(s.substr(p, e - p));
    p = e + 1;
  }
  out.push_back(s.substr(p));
  return out;
}

int main(int argc, char **argv) {
  return vh::run_main(argc, argv, [](size_t, const vh::Fields &f) -> vh::Fields {
    if (f.size() < 2 || f[0] != "H") return {"bad-case"};
    Worker w[3];
    for (auto &x : w) x.start();
    auto on_thread = [&](int t, std::function<void()> j) {
      if (t == 0) j();
      else w[t - 1].run(std::move(j));
    };
    vh::Fields failures;
    long probes = 0;
    const std::string usedir = f[1];
    for (size_t i = 2; i < f.size(); ++i) {
      const std::string &op = f[i];
      auto head = split(op, ':', 3);
      const std::string kind = head[0];
      const int slot = std::stoi(head[1]);
      const std::string step = "step " + std::to_string(i - 2) + " [" + op.substr(0, 120) + "]";
      if (kind == "create") {
        on_thread(0, [&] {
          auto lib = vh::stdlib_singleton();
          if (head[2] == "fixed") {
            g_eng[slot] = new (g_fixed[slot]) ChaiScript_Basic(lib, verif_create_parser_opt(), {}, {usedir + "/"});
            g_is_fixed[slot] = true;
          } else {
            g_eng[slot] = new ChaiScript_Basic(lib, verif_create_parser_opt(), {}, {usedir + "/"});
            g_is_fixed[slot] = false;
          }
          g_use_counts[slot] = 0;
          int *cnt = &g_use_counts[slot];
          g_eng[slot]->add(fun([cnt]() { ++*cnt; }), "bump");
          g_eng[slot]->add(fun([](const Tgt<0> &t) { return t.v; }), "tgt_ca");
          g_eng[slot]->add(fun([](const Tgt<1> &t) { return t.v; }), "tgt_cb");
          g_eng[slot]->add(fun([](const Tgt<2> &t) { return t.v; }), "tgt_cc");
          g_eng[slot]->add(fun([]() { return Src<0>(); }), "mk_ca");
          g_eng[slot]->add(fun([]() { return Src<1>(); }), "mk_cb");
          g_eng[slot]->add(fun([]() { return Src<2>(); }), "mk_cc");
          g_eng[slot]->add(fun(&tyidx), "tyidx");
        });
        continue;
      }
      auto parts = split(op, ':', kind == "probe" ? 5 : ((kind == "addfn" || kind == "addconv" || kind == "addtype") ? 5 : 4));
      const int thr = std::stoi(parts[2]);
      ChaiScript_Basic *chai = g_eng[slot];
      if (kind == "destroy") {
        on_thread(thr, [&] {
          if (g_is_fixed[slot]) chai->~ChaiScript_Basic();
          else delete chai;
          g_eng[slot] = nullptr;
        });
      } else if (kind == "eval") {
        on_thread(thr, [&] {
          vh::Outcome o = vh::classify([&]() -> std::string {
            chai->eval(parts[3]);
            return "";
          });
          if (o.cls != "ok") failures.push_back("definition-failed|" + step + "|" + o.cls + " " + o.what.substr(0, 150));
        });
      } else if (kind == "addfn") {
        on_thread(thr, [&] {
          int k = std::stoi(parts[4]);
          vh::Outcome o = vh::classify([&]() -> std::string {
            chai->add(fun([k](int x) { return x + k; }), parts[3]);
            return "";
          });
          if (o.cls != "ok") failures.push_back("definition-failed|" + step + "|" + o.cls + " " + o.what.substr(0, 150));
        });
      } else if (kind == "addconv") {
        on_thread(thr, [&] {
          int k = std::stoi(parts[4]);
          vh::Outcome o = vh::classify([&]() -> std::string {
            if (parts[3] == "ca") add_conv<0>(*chai, k);
            else if (parts[3] == "cb") add_conv<1>(*chai, k);
            else add_conv<2>(*chai, k);
            return "";
          });
          if (o.cls != "ok") failures.push_back("definition-failed|" + step + "|" + o.cls + " " + o.what.substr(0, 150));
        });
      } else if (kind == "addtype") {
        on_thread(thr, [&] {
          int k = std::stoi(parts[4]);
          vh::Outcome o = vh::classify([&]() -> std::string {
            if (k == 0) chai->add(user_type<TyTag<0>>(), parts[3]);
            else if (k == 1) chai->add(user_type<TyTag<1>>(), parts[3]);
            else chai->add(user_type<TyTag<2>>(), parts[3]);
            return "";
          });
          if (o.cls != "ok") failures.push_back("definition-failed|" + step + "|" + o.cls + " " + o.what.substr(0, 150));
        });
      } else if (kind == "use") {
        on_thread(thr, [&] {
          vh::Outcome o = vh::classify([&]() -> std::string {
            chai->use(parts[3]);
            return "";
          });
          if (o.cls != "ok") failures.push_back("use-failed|" + step + "|" + o.cls + " " + o.what.substr(0, 150));
        });
      } else if (kind == "usecount") {
        ++probes;
        if (g_use_counts[slot] != std::stoi(parts[3])) {
          failures.push_back("used-file-count|" + step + "|got " + std::to_string(g_use_counts[slot]));
        }
      } else if (kind == "probe") {
        on_thread(thr, [&] {
          ++probes;
          vh::Outcome o = vh::classify([&]() -> std::string { return vh::render(chai->eval(parts[3])); });
          const std::string &want = parts[4];
          if (want == "!ERR") {
            if (o.cls == "ok") failures.push_back("name-visible-in-wrong-engine-or-thread|" + step + "|got " + o.what.substr(0, 100));
          } else if (o.cls != "ok") {
            failures.push_back("name-lost|" + step + "|" + o.cls + " " + o.what.substr(0, 120));
          } else if (o.what != want) {
            failures.push_back("wrong-value|" + step + "|got " + o.what.substr(0, 100));
          }
        });
      }
      if (failures.size() > 8) break;
    }
    for (int s = 0; s < NSLOTS; ++s) {
      if (g_eng[s]) {
        if (g_is_fixed[s]) g_eng[s]->~ChaiScript_Basic();
        else delete g_eng[s];
        g_eng[s] = nullptr;
      }
    }
    for (auto &x : w) x.stop();
    vh::Fields out{std::to_string(probes)};
    out.insert(out.end(), failures.begin(), failures.end());
    return out;
  });
}
