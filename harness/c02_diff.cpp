// C02 (and generic two-configuration differential): the same source on two fresh engines.
//  D src     engine A = default optimizer pipeline, engine B = identity optimizer (no tree rewriting)
//            -> per side: cls, rendered result, reason, stdout, tick-log ; then: AST dumps differ?, optimised-node census
// Harness functions visible to scripts: tick(int) -> int (logs its argument), counter object 'ctr' with inc()/get().
#include "common.hpp"

using namespace chaiscript;

struct Counter {
  int n = 0;
  std::vector<int> hist;
  int inc(int by) {
    n += by;
    hist.push_back(n);
    return n;
  }
  int get() const { return n; }
};

struct Side {
  std::unique_ptr<ChaiScript_Basic> chai;
  std::vector<int> ticks;
  Counter ctr;
};

static void setup(Side &s, bool opt) {
  s.chai = vh::make_engine(opt);
  auto *ticks = &s.ticks;
  s.chai->add(fun([ticks](int v) {
                ticks->push_back(v);
                return v;
              }),
              "tick");
  s.chai->add(user_type<Counter>(), "Counter");
  s.chai->add(fun(&Counter::inc), "inc");
  s.chai->add(fun(&Counter::get), "get");
  s.chai->add_global(var(std::ref(s.ctr)), "ctr");
}

static vh::Fields run_side(Side &s, const std::string &src) {
  std::string rendered;
  vh::Capture cap;
  cap.begin();
  vh::Outcome o = vh::classify([&]() -> std::string {
    rendered = vh::render(s.chai->eval(src));
    return "";
  });
  std::string out = cap.end();
  std::string log;
  for (int t : s.ticks) log += std::to_string(t) + ",";
  log += "|ctr=" + std::to_string(s.ctr.n) + "|";
  for (int t : s.ctr.hist) log += std::to_string(t) + ",";
  return {o.cls, rendered, o.cls == "eval_error" || o.cls == "boxed" ? o.what : (o.cls == "ok" ? "" : o.what), out, log};
}

static size_t count_of(const std::string &hay, const std::string &needle) {
  size_t n = 0, p = 0;
  while ((p = hay.find(needle, p)) != std::string::npos) {
    ++n;
    p += needle.size();
  }
  return n;
}

int main(int argc, char **argv) {
  return vh::run_main(argc, argv, [](size_t, const vh::Fields &f) -> vh::Fields {
    if (f.size() >= 2 && f[0] == "S") {
      // single configuration (default pipeline): used by the reference-model check
      Side a;
      setup(a, true);
      return run_side(a, f[1]);
    }
    if (f.size() < 2 || f[0] != "D") return {"bad-case"};
    Side a, b;
    setup(a, true);
    setup(b, false);
    vh::Fields ra = run_side(a, f[1]);
    vh::Fields rb = run_side(b, f[1]);
    std::string da, db;
    try {
      da = a.chai->parse(f[1])->to_string();
      db = b.chai->parse(f[1])->to_string();
    } catch (...) {
    }
    ra.insert(ra.end(), rb.begin(), rb.end());
    ra.push_back(da == db ? "same-tree" : "different-tree");
    std::string census;
    for (const char *k : {"(Compiled)", "(Scopeless_Block)", "(Assign_Decl)", "(Unused_Return_Fun_Call)", "(Constant)", "(Binary)", "(Block)", "(If)", "(Return)",
                          "(Noop)", "(For)", "(Id)"}) {
      census += std::string(k) + "=" + std::to_string(count_of(da, k)) + "/" + std::to_string(count_of(db, k)) + ";";
    }
    ra.push_back(census);
    return ra;
  });
}
