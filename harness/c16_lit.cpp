// C16: literal evaluation harness.
//  E src            eval on the batch-shared engine -> cls, rendered value (type:value), what
//  N src            eval on a fresh engine          -> same
//  F lit digits k   float literal 'lit' (digits = text without suffix, k = f|d|l): engine value vs strtof/strtod/strtold
//                   -> cls, type, ulps (integer distance in representable values), engine value, reference value
//  H text           utility::hash(text) as used by the lexer -> decimal
#include "common.hpp"
#include <cmath>

using namespace chaiscript;

static std::unique_ptr<ChaiScript_Basic> g_chai;

static vh::Fields eval_fields(ChaiScript_Basic &chai, const std::string &src) {
  std::string rendered;
  vh::Capture cap;
  cap.begin();
  vh::Outcome o = vh::classify([&]() -> std::string {
    Boxed_Value bv = chai.eval(src);
    rendered = vh::render(bv);
    return "";
  });
  std::string out = cap.end();
  return {o.cls, rendered, o.what, o.extra, out};
}

template<typename T> static long double ulps_between(T a, T b) {
  if (std::isnan(a) || std::isnan(b)) return (std::isnan(a) && std::isnan(b)) ? 0 : 1e9L;
  if (a == b) return 0;
  if (std::isinf(a) || std::isinf(b)) return 1e9L;
  long double n = 0;
  T lo = std::min(a, b), hi = std::max(a, b);
  while (lo < hi && n < 64) {
    lo = std::nextafter(lo, hi);
    n += 1;
  }
  return n;
}

int main(int argc, char **argv) {
  return vh::run_main(
      argc, argv,
      [](size_t, const vh::Fields &f) -> vh::Fields {
        if (f.size() >= 2 && f[0] == "E") return eval_fields(*g_chai, f[1]);
        if (f.size() >= 2 && f[0] == "N") {
          auto chai = vh::make_engine(true);
          return eval_fields(*chai, f[1]);
        }
        if (f.size() >= 2 && f[0] == "H") return {std::to_string(utility::hash(f[1]))};
        if (f.size() >= 4 && f[0] == "F") {
          Boxed_Value bv;
          vh::Outcome o = vh::classify([&]() -> std::string {
            bv = g_chai->eval(f[1]);
            return "";
          });
          if (o.cls != "ok") return {o.cls, "", "", o.what, ""};
          const Type_Info &ti = bv.get_type_info();
          char b1[80], b2[80];
          if (ti.bare_equal_type_info(typeid(float))) {
            float e = boxed_cast<float>(bv), r = std::strtof(f[2].c_str(), nullptr);
            std::snprintf(b1, sizeof b1, "%.9g", e);
            std::snprintf(b2, sizeof b2, "%.9g", r);
            return {"ok", "float", std::to_string(static_cast<long long>(ulps_between(e, r))), b1, b2};
          }
          if (ti.bare_equal_type_info(typeid(double))) {
            double e = boxed_cast<double>(bv), r = std::strtod(f[2].c_str(), nullptr);
            std::snprintf(b1, sizeof b1, "%.17g", e);
            std::snprintf(b2, sizeof b2, "%.17g", r);
            return {"ok", "double", std::to_string(static_cast<long long>(ulps_between(e, r))), b1, b2};
          }
          if (ti.bare_equal_type_info(typeid(long double))) {
            long double e = boxed_cast<long double>(bv), r = std::strtold(f[2].c_str(), nullptr);
            std::snprintf(b1, sizeof b1, "%.21Lg", e);
            std::snprintf(b2, sizeof b2, "%.21Lg", r);
            return {"ok", "long double", std::to_string(static_cast<long long>(ulps_between(e, r))), b1, b2};
          }
          return {"ok", vh::render(bv), "-1", "", ""};
        }
        return {"bad-case"};
      },
      [] { g_chai = vh::make_engine(true); });
}
