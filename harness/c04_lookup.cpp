// C04: lookup caches are invisible.
//  L src   three fresh engines, same source: A normal, B lookup hints bypassed (hook H1 mode 1), C audit (mode 2, counters)
//          -> A(5 fields) B(5 fields) C(5 fields) audit-counters
#include "common.hpp"

using namespace chaiscript;

static vh::Fields run_mode(int mode, const std::string &src) {
  auto chai = vh::make_engine(true);
  std::vector<int> ticks;
  chai->add(fun([&ticks](int v) {
              ticks.push_back(v);
              return v;
            }),
            "tick");
  verif::lookup_cache_mode = mode;
  std::string rendered;
  vh::Capture cap;
  cap.begin();
  vh::Outcome o = vh::classify([&]() -> std::string {
    rendered = vh::render(chai->eval(src));
    return "";
  });
  std::string out = cap.end();
  verif::lookup_cache_mode = 0;
  std::string log;
  for (int t : ticks) log += std::to_string(t) + ",";
  return {o.cls, rendered, (o.cls == "ok") ? "" : o.what, out, log};
}

int main(int argc, char **argv) {
  return vh::run_main(argc, argv, [](size_t, const vh::Fields &f) -> vh::Fields {
    if (f.size() < 2 || f[0] != "L") return {"bad-case"};
    vh::Fields a = run_mode(0, f[1]);
    vh::Fields b = run_mode(1, f[1]);
    verif::hint_fills = 0;
    verif::hint_agree = 0;
    verif::hint_stale_recovered = 0;
    verif::hint_disagree_nearer_local = 0;
    verif::hint_disagree_global_shadowed = 0;
    vh::Fields c = run_mode(2, f[1]);
    a.insert(a.end(), b.begin(), b.end());
    a.insert(a.end(), c.begin(), c.end());
    a.push_back("fills=" + std::to_string(verif::hint_fills.load()) + ";agree=" + std::to_string(verif::hint_agree.load())
                + ";stale_recovered=" + std::to_string(verif::hint_stale_recovered.load())
                + ";nearer_local=" + std::to_string(verif::hint_disagree_nearer_local.load())
                + ";global_shadowed=" + std::to_string(verif::hint_disagree_global_shadowed.load()));
    return a;
  });
}
