// C13: one engine, many threads. Built with ThreadSanitizer. Not a fork-runner harness: one process runs R rounds.
//   c13_threads <seed> <rounds> <threads> <ops-per-thread> <use-file-dir> <yield-permille>
// Each round: fresh engine with shared script functions; T threads run seeded op lists (calls of shared functions, locals with
// colliding names, def/global/class definitions, add(fun), add(type_conversion) + a call that needs it, calls of functions other
// threads published *after* their registration returned (release/acquire through a harness mutex), use() of one file, get_state()).
// Oracles inside the harness: every result equals its single-threaded expectation, published registrations are visible, final
// inventory complete, the used file was evaluated exactly once. Hook H4 injects seeded yields before lock acquisitions and records
// the global order of acquisitions (schedule signature). ThreadSanitizer reports are collected by the driver from log_path.
#include "common.hpp"
#include <atomic>
#include <mutex>
#include <random>
#include <sched.h>
#include <thread>

using namespace chaiscript;

template<int N> struct Tag {
  int v = 0;
};

static std::atomic<long> g_seq{0};
struct Ev {
  long seq;
  int site;
};
static thread_local std::vector<Ev> *t_events = nullptr;
static thread_local std::mt19937 *t_rng = nullptr;
static std::atomic<int> g_yield_permille{0};

static void yield_cb(int site) {
  if (!t_events) return; // not one of our worker threads
  t_events->push_back({g_seq.fetch_add(1, std::memory_order_relaxed), site});
  const int p = g_yield_permille.load(std::memory_order_relaxed);
  if (p > 0 && t_rng) {
    const unsigned r = (*t_rng)() % 1000u;
    if (static_cast<int>(r) < p) {
      if (r % 3 == 0) {
        usleep(((*t_rng)() % 200u));
      } else {
        sched_yield();
      }
    }
  }
}

struct Published {
  std::string call;     // expression to evaluate
  std::string expected; // rendered result
  std::string what;
};

struct Round {
  std::unique_ptr<ChaiScript_Basic> chai;
  std::mutex pub_mutex;
  std::vector<Published> published;
  std::atomic<int> use_count{0};
  std::atomic<int> use_done{0};
  std::mutex fail_mutex;
  std::vector<std::string> failures;
  void fail(const std::string &s) {
    std::lock_guard<std::mutex> l(fail_mutex);
    if (failures.size() < 20) failures.push_back(s);
  }
  void publish(Published p) {
    std::lock_guard<std::mutex> l(pub_mutex);
    published.push_back(std::move(p));
  }
  bool pick(std::mt19937 &rng, Published &out) {
    std::lock_guard<std::mutex> l(pub_mutex);
    if (published.empty()) return false;
    out = published[rng() % published.size()];
    return true;
  }
};

static std::string eval_render(ChaiScript_Basic &chai, const std::string &src) {
  vh::Outcome o = vh::classify([&]() -> std::string { return vh::render(chai.eval(src)); });
  if (o.cls == "ok") return o.what;
  return "EXC:" + o.cls + ":" + o.what.substr(0, 100) + o.extra;
}

template<int N> static void add_conversion(ChaiScript_Basic &chai) {
  chai.add(type_conversion<Tag<N>, int>([](const Tag<N> &t) { return t.v; }));
}
using ConvAdder = void (*)(ChaiScript_Basic &);
template<int... Is> static std::vector<ConvAdder> conv_table(std::integer_sequence<int, Is...>) {
  return {&add_conversion<Is>...};
}
template<int N> static void add_tag_global(ChaiScript_Basic &chai) {
  chai.add(user_type<Tag<N>>(), "Tag" + std::to_string(N));
  Tag<N> t;
  t.v = 1000 + N;
  chai.add_global_const(const_var(t), "tagobj" + std::to_string(N));
}
template<int... Is> static void add_tag_globals(ChaiScript_Basic &chai, std::integer_sequence<int, Is...>) {
  (add_tag_global<Is>(chai), ...);
}
constexpr int NTAGS = 64;

static void worker(Round &R, int tid, unsigned seed, int nops, const std::string &use_file, std::vector<Ev> &events) {
  std::mt19937 rng(seed);
  t_events = &events;
  t_rng = &rng;
  ChaiScript_Basic &chai = *R.chai;
  static const std::vector<ConvAdder> convs = conv_table(std::make_integer_sequence<int, NTAGS>{});
  std::vector<std::pair<std::string, int>> my_locals;
  int conv_used = 0;
  for (int i = 0; i < nops; ++i) {
    const unsigned op = rng() % 13;
    const std::string id = "t" + std::to_string(tid) + "_" + std::to_string(i);
    switch (op) {
      case 0:
      case 1: { // shared function calls
        int k = static_cast<int>(rng() % 1000);
        std::string r = eval_render(chai, "shared_f(" + std::to_string(k) + ")");
        if (r != "int:" + std::to_string(2 * k + 1)) R.fail("shared_f(" + std::to_string(k) + ") -> " + r);
        r = eval_render(chai, "shared_sum([1, 2, " + std::to_string(k) + "])");
        if (r != "int:" + std::to_string(3 + k)) R.fail("shared_sum -> " + r);
        r = eval_render(chai, "shared_f(shared_int) + shared_sum(shared_vec) + pass_on(shared_int) + int(shared_str.size()) + fun[shared_int]() { shared_int }()");
        if (r != "int:119") R.fail("shared objects as arguments -> " + r);
        break;
      }
      case 2: { // local with a name every thread uses
        int v = tid * 100000 + i;
        std::string name = "loc_" + std::to_string(i);
        std::string r = eval_render(chai, "var " + name + " = " + std::to_string(v) + "; " + name);
        if (r != "int:" + std::to_string(v)) R.fail("local decl " + name + " -> " + r);
        my_locals.emplace_back(name, v);
        break;
      }
      case 3: { // read back one of my locals
        if (!my_locals.empty()) {
          auto &l = my_locals[rng() % my_locals.size()];
          std::string r = eval_render(chai, l.first);
          if (r != "int:" + std::to_string(l.second)) R.fail("thread " + std::to_string(tid) + " reads local " + l.first + " -> " + r + " expected " + std::to_string(l.second));
        }
        break;
      }
      case 4: { // def + publish
        int k = static_cast<int>(rng() % 100);
        std::string name = "fn_" + id;
        std::string r = eval_render(chai, "def " + name + "(x) { x + " + std::to_string(k) + " }");
        if (r.rfind("EXC:", 0) == 0) R.fail("def " + name + " -> " + r);
        R.publish({name + "(5)", "int:" + std::to_string(5 + k), "script function"});
        break;
      }
      case 5: { // global + publish
        int v = static_cast<int>(rng() % 100000);
        std::string name = "gl_" + id;
        std::string r = eval_render(chai, "global " + name + " = " + std::to_string(v));
        if (r.rfind("EXC:", 0) == 0) R.fail("global " + name + " -> " + r);
        R.publish({name, "int:" + std::to_string(v), "global"});
        break;
      }
      case 6: { // C++ function + publish
        int k = static_cast<int>(rng() % 50) + 1;
        std::string name = "cpp_" + id;
        chai.add(fun([k](int x) { return x * k; }), name);
        R.publish({name + "(3)", "int:" + std::to_string(3 * k), "C++ function"});
        break;
      }
      case 7: { // class + publish
        int k = static_cast<int>(rng() % 100);
        std::string name = "K_" + id;
        std::string r = eval_render(chai, "class " + name + " { attr a; def " + name + "() { this.a = " + std::to_string(k) + " }; def get() { this.a + 1 } }");
        if (r.rfind("EXC:", 0) == 0) R.fail("class " + name + " -> " + r);
        R.publish({name + "().get()", "int:" + std::to_string(k + 1), "class"});
        break;
      }
      case 8: { // conversion: before -> must fail, after add -> must work, then publish
        if (conv_used < 4) {
          int n = tid * 4 + conv_used++;
          if (n < NTAGS) {
            std::string call = "take_int(tagobj" + std::to_string(n) + ")";
            std::string before = eval_render(chai, call);
            if (before.rfind("EXC:", 0) != 0) R.fail("conversion Tag" + std::to_string(n) + " usable before it was added: " + before);
            convs[static_cast<size_t>(n)](chai);
            std::string after = eval_render(chai, call);
            if (after != "int:" + std::to_string(1000 + n)) R.fail("conversion Tag" + std::to_string(n) + " not usable right after add: " + after);
            R.publish({call, "int:" + std::to_string(1000 + n), "conversion"});
          }
        }
        break;
      }
      case 9:
      case 10: { // something another thread published after its registration returned
        Published p;
        if (R.pick(rng, p)) {
          std::string r = eval_render(chai, p.call);
          if (r != p.expected) R.fail("published " + p.what + " not visible/incorrect on thread " + std::to_string(tid) + ": " + p.call + " -> " + r + " expected " + p.expected);
        }
        break;
      }
      case 11: { // use() of the one file
        vh::Outcome o = vh::classify([&]() -> std::string {
          if (rng() % 2) chai.use(use_file);
          else chai.eval("use(\"" + use_file + "\")");
          return "";
        });
        if (o.cls != "ok") R.fail("use() -> " + o.cls + " " + o.what);
        else R.use_done.fetch_add(1);
        if (R.use_count.load() != 1) R.fail("use() returned but the file was evaluated " + std::to_string(R.use_count.load()) + " times so far");
        break;
      }
      default: { // get_state
        auto s = chai.get_state();
        (void)s;
        break;
      }
    }
  }
  // all my locals still hold my values
  for (auto &l : my_locals) {
    std::string r = eval_render(chai, l.first);
    if (r != "int:" + std::to_string(l.second)) R.fail("thread " + std::to_string(tid) + " final local " + l.first + " -> " + r);
  }
  t_events = nullptr;
  t_rng = nullptr;
}

int main(int argc, char **argv) {
  if (argc < 7) {
    std::fprintf(stderr, "usage: %s seed rounds threads ops usedir yield_permille\n", argv[0]);
    return 2;
  }
  const unsigned seed = static_cast<unsigned>(std::stoul(argv[1]));
  const int rounds = std::atoi(argv[2]);
  const int T = std::atoi(argv[3]);
  const int nops = std::atoi(argv[4]);
  const std::string usedir = argv[5];
  g_yield_permille = std::atoi(argv[6]);
  verif::yield_cb.store(&yield_cb);
  for (int r = 0; r < rounds; ++r) {
    Round R;
    R.chai = vh::make_engine(true, {}, {usedir + "/"});
    R.chai->eval("def shared_f(x) { x * 2 + 1 }\ndef shared_sum(v) { var s = 0; for (e : v) { s += e }; s }");
    // objects every thread reads: passed by name as arguments, captured, used as method receivers (reading shared objects must not write to them)
    R.chai->eval("global shared_int = 21\nglobal shared_vec = [1, 2, 3]\nglobal shared_str = \"shared\"\ndef pass_on(x) { shared_f(x) }");
    R.chai->add(fun([](int x) { return x; }), "take_int");
    auto *counter = &R.use_count;
    R.chai->add(fun([counter]() { counter->fetch_add(1); }), "bump_use");
    add_tag_globals(*R.chai, std::make_integer_sequence<int, NTAGS>{});
    g_seq = 0;
    std::vector<std::vector<Ev>> events(static_cast<size_t>(T));
    std::vector<std::thread> th;
    for (int t = 0; t < T; ++t) {
      th.emplace_back(worker, std::ref(R), t, seed * 7919u + static_cast<unsigned>(r) * 104729u + static_cast<unsigned>(t) * 13u + 1u, nops, std::string("c13_used.chai"),
                      std::ref(events[static_cast<size_t>(t)]));
    }
    for (auto &x : th) x.join();
    // final inventory from the main thread
    size_t npub = 0;
    for (auto &p : R.published) {
      ++npub;
      std::string rr = eval_render(*R.chai, p.call);
      if (rr != p.expected) R.fail("final inventory: " + p.what + " " + p.call + " -> " + rr + " expected " + p.expected);
    }
    bool used_any = false;
    for (auto &ev : events) used_any = used_any || !ev.empty();
    if (R.use_done.load() > 0 && R.use_count.load() != 1) R.fail("used file evaluated " + std::to_string(R.use_count.load()) + " times");
    // schedule signature: order of threads at lock sites
    std::vector<std::pair<long, int>> all;
    for (int t = 0; t < T; ++t) {
      for (auto &e : events[static_cast<size_t>(t)]) all.emplace_back(e.seq, t * 8 + e.site);
    }
    std::sort(all.begin(), all.end());
    unsigned long long sig = 1469598103934665603ULL;
    long switches = 0;
    int last = -1;
    for (auto &e : all) {
      sig = (sig ^ static_cast<unsigned long long>(e.second)) * 1099511628211ULL;
      if (last != -1 && (e.second / 8) != last) ++switches;
      last = e.second / 8;
    }
    std::printf("ROUND %d threads=%d ops=%d lock_events=%zu thread_switches=%ld signature=%016llx published=%zu use_count=%d failures=%zu\n", r, T, nops, all.size(),
                switches, sig, npub, R.use_count.load(), R.failures.size());
    for (auto &f : R.failures) std::printf("FAIL %s\n", vh::esc(f).c_str());
    std::fflush(stdout);
  }
  return 0;
}
