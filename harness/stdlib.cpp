#include <chaiscript/chaiscript_stdlib.hpp>
#include "libs.hpp"
std::shared_ptr<chaiscript::Module> verif_create_stdlib() {
  return chaiscript::Std_Lib::library();
}
