// C10: exceptions are delivered, not lost or altered.
//  X mode src     mode = plain | spec ; fresh engine; harness functions: cpp_throw(kind) throws a C++ exception of the given kind
//                 (runtime, range (std::out_of_range), logic, int, custom, evalerr), zero() returns 0.
//  -> what left eval: cls, detail(type / rendered payload / what()), stdout trace
#include "common.hpp"

using namespace chaiscript;

struct Custom_Exc {
  int code;
};
struct User_Payload {
  int v = 7;
};

static void cpp_throw(const std::string &kind) {
  if (kind == "runtime") throw std::runtime_error("cpp-runtime");
  if (kind == "range") throw std::out_of_range("cpp-range");
  if (kind == "logic") throw std::logic_error("cpp-logic");
  if (kind == "int") throw 4242;
  if (kind == "custom") throw Custom_Exc{9};
  if (kind == "evalerr") throw exception::eval_error("cpp-evalerr");
  throw std::logic_error("bad kind");
}

int main(int argc, char **argv) {
  return vh::run_main(argc, argv, [](size_t, const vh::Fields &f) -> vh::Fields {
    if (f.size() < 3 || f[0] != "X") return {"bad-case"};
    auto chai = vh::make_engine(true);
    chai->add(fun(&cpp_throw), "cpp_throw");
    chai->add(fun([]() { return 0; }), "zero");
    chai->add(user_type<User_Payload>(), "User_Payload");
    chai->add(constructor<User_Payload()>(), "User_Payload");
    std::string cls, detail;
    vh::Capture cap;
    cap.begin();
    try {
      if (f[1] == "spec") {
        chai->eval(f[2], exception_specification<int, std::string, User_Payload, const std::exception &>());
      } else {
        chai->eval(f[2]);
      }
      cls = "returned";
    } catch (const exception::eval_error &e) {
      cls = "eval_error";
      detail = e.reason;
    } catch (const exception::arithmetic_error &e) {
      cls = "arithmetic_error";
    } catch (const std::out_of_range &e) {
      cls = "std::out_of_range";
      detail = e.what();
    } catch (const std::logic_error &e) {
      cls = "std::logic_error";
      detail = e.what();
    } catch (const std::runtime_error &e) {
      cls = std::string("std::runtime_error") + (typeid(e) == typeid(std::runtime_error) ? "" : "(derived:" + vh::demangle(typeid(e).name()) + ")");
      detail = e.what();
    } catch (const std::exception &e) {
      cls = "std::exception:" + vh::demangle(typeid(e).name());
      detail = e.what();
    } catch (const Boxed_Value &bv) {
      cls = "boxed";
      detail = vh::render(bv);
    } catch (int v) {
      cls = "int";
      detail = std::to_string(v);
    } catch (const std::string &s) {
      cls = "std::string";
      detail = s;
    } catch (const User_Payload &u) {
      cls = "User_Payload";
      detail = std::to_string(u.v);
    } catch (const Custom_Exc &c) {
      cls = "Custom_Exc";
      detail = std::to_string(c.code);
    } catch (...) {
      cls = "unknown";
    }
    std::string out = cap.end();
    return {cls, detail, out};
  });
}
