// C15: get_state / set_state restore the global environment exactly. One case = one history on one engine.
//  S usedir op op ...  ops ('\x1f' separated fields):
//    eval <src> | addfn <name> <k> | addtype <n> | use <file> | snap <id> | restore <id> | probe <expr> <expected|!ERR> | usecount <n>
//  -> number of probes, then one field per failed expectation
#include "common.hpp"

using namespace chaiscript;
static const char US = '\x1f';

template<int N> struct UT {
  int v = N;
};
template<int N> static void add_ut(ChaiScript_Basic &c) {
  c.add(user_type<UT<N>>(), "UT" + std::to_string(N));
}
using Adder = void (*)(ChaiScript_Basic &);
template<int... Is> static std::vector<Adder> ut_table(std::integer_sequence<int, Is...>) {
  return {&add_ut<Is>...};
}

static std::vector<std::string> split(const std::string &s) {
  std::vector<std::string> out;
  size_t p = 0;
  while (true) {
    size_t e = s.find(US, p);
    if (e == std::string::npos) {
      out.push_back(s.substr(p));
      break;
    }
    out.push_back(s.substr(p, e - p));
    p = e + 1;
  }
  return out;
}

int main(int argc, char **argv) {
  return vh::run_main(argc, argv, [](size_t, const vh::Fields &f) -> vh::Fields {
    if (f.size() < 2 || f[0] != "S") return {"bad-case"};
    static const auto uts = ut_table(std::make_integer_sequence<int, 8>{});
    auto chai = vh::make_engine(true, {}, {f[1] + "/"});
    int use_count = 0;
    int *uc = &use_count;
    chai->add(fun([uc]() { ++*uc; }), "bump");
    std::map<std::string, ChaiScript_Basic::State> snaps;
    vh::Fields failures;
    long probes = 0;
    for (size_t i = 2; i < f.size(); ++i) {
      auto p = split(f[i]);
      const std::string step = "step " + std::to_string(i - 2) + " [" + vh::esc(f[i]).substr(0, 140) + "]";
      const std::string &k = p[0];
      vh::Outcome o;
      if (k == "eval") {
        o = vh::classify([&]() -> std::string {
          chai->eval(p[1]);
          return "";
        });
        if (o.cls != "ok") failures.push_back("definition-failed|" + step + "|" + o.cls + " " + o.what.substr(0, 150));
      } else if (k == "addfn") {
        int kk = std::stoi(p[2]);
        o = vh::classify([&]() -> std::string {
          chai->add(fun([kk](int x) { return x + kk; }), p[1]);
          return "";
        });
        if (o.cls != "ok") failures.push_back("definition-failed|" + step + "|" + o.cls + " " + o.what.substr(0, 150));
      } else if (k == "addtype") {
        uts[static_cast<size_t>(std::stoi(p[1]))](*chai);
      } else if (k == "use") {
        o = vh::classify([&]() -> std::string {
          chai->use(p[1]);
          return "";
        });
        if (o.cls != "ok") failures.push_back("use-failed|" + step + "|" + o.cls + " " + o.what.substr(0, 150));
      } else if (k == "snap") {
        snaps[p[1]] = chai->get_state();
      } else if (k == "restore") {
        chai->set_state(snaps.at(p[1]));
      } else if (k == "usecount") {
        ++probes;
        if (use_count != std::stoi(p[1])) failures.push_back("used-file-evaluations|" + step + "|got " + std::to_string(use_count));
      } else if (k == "probe") {
        ++probes;
        o = vh::classify([&]() -> std::string { return vh::render(chai->eval(p[1])); });
        if (p[2] == "!ERR") {
          if (o.cls == "ok") failures.push_back("present-but-should-be-gone|" + step + "|got " + o.what.substr(0, 100));
        } else if (o.cls != "ok") {
          failures.push_back("gone-but-should-be-present|" + step + "|" + o.cls + " " + o.what.substr(0, 120));
        } else if (o.what != p[2]) {
          failures.push_back("wrong-result|" + step + "|got " + o.what.substr(0, 100));
        }
      }
      if (failures.size() > 6) break;
    }
    vh::Fields out{std::to_string(probes)};
    out.insert(out.end(), failures.begin(), failures.end());
    return out;
  });
}
