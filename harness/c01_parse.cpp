// C01: parse totality/safety harness. One case = one input handed to ChaiScript_Basic::parse
// (no evaluation). The input lives in a heap std::string whose terminator and slack are
// ASan-poisoned, so any read at or beyond size() is an observable event.
#include "common.hpp"

#if defined(__has_feature)
#if __has_feature(address_sanitizer)
#define VH_ASAN 1
#endif
#endif
#if defined(__SANITIZE_ADDRESS__)
#define VH_ASAN 1
#endif
#ifdef VH_ASAN
#include <sanitizer/asan_interface.h>
#endif

using namespace chaiscript;

static std::unique_ptr<ChaiScript_Basic> g_chai;

static std::string *make_exact(const std::string &content) {
  auto *s = new std::string();
  s->reserve(std::max<size_t>(content.size(), 24)); // never SSO: buffer is its own heap chunk with red zones
  s->assign(content);
#ifdef VH_ASAN
  // poison the terminator and the unused capacity: the parser must never look at s[size()]
  char *p = s->data() + s->size();
  size_t n = s->capacity() + 1 - s->size();
  __asan_poison_memory_region(p, n);
#endif
  return s;
}

static void release_exact(std::string *s) {
#ifdef VH_ASAN
  __asan_unpoison_memory_region(s->data() + s->size(), s->capacity() + 1 - s->size());
#endif
  delete s;
}

static vh::Fields do_parse(const std::string &input) {
  std::string *s = make_exact(input);
  verif::parse_remaining_max = 0;
  verif::parse_returns = 0;
  std::string root = "-";
  size_t nchildren = 0;
  vh::Outcome o = vh::classify([&]() -> std::string {
    AST_NodePtr p = g_chai->parse(*s);
    root = ast_node_type_to_string(p->identifier);
    nchildren = p->get_children().size();
    return "";
  });
  size_t rem = verif::parse_remaining_max;
  size_t rets = verif::parse_returns;
  release_exact(s);
  return {o.cls, o.what, o.extra, std::to_string(rem), root, std::to_string(nchildren), std::to_string(rets)};
}

static std::string repeat(const std::string &s, size_t n) {
  std::string o;
  o.reserve(s.size() * n);
  for (size_t i = 0; i < n; ++i) o += s;
  return o;
}

#ifndef C01_NO_MAIN
int main(int argc, char **argv) {
  return vh::run_main(
      argc, argv,
      [](size_t, const vh::Fields &f) -> vh::Fields {
        if (f.size() >= 2 && f[0] == "P") {
          return do_parse(f[1]);
        }
        if (f.size() >= 5 && f[0] == "G") {
          // G prefix n middle suffix  ->  prefix*n + middle + suffix*n
          size_t n = static_cast<size_t>(std::stoull(f[2]));
          return do_parse(repeat(f[1], n) + f[3] + repeat(f[4], n));
        }
        if (f.size() >= 5 && f[0] == "C") {
          // C head n unit tail -> head + unit*n + tail   (chains)
          size_t n = static_cast<size_t>(std::stoull(f[2]));
          return do_parse(f[1] + repeat(f[3], n) + f[4]);
        }
        if (f.size() >= 2 && f[0] == "SELFTEST_OVERREAD") {
          // monitor self-test: a deliberate read of the terminator must be reported by ASan
          std::string *s = make_exact(f[1]);
          volatile char c = s->data()[s->size()];
          (void)c;
          return {"no-report"};
        }
        return {"bad-case"};
      },
      [] { g_chai = vh::make_engine(true); });
}
#endif
