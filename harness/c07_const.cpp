// C07: const values cannot be modified from script.
//  K source setup attempt     source = name of the const source under attack; setup must evaluate; attempt is the mutation attempt.
//  The harness owns the const objects, snapshots all of them before and after the attempt (conservation oracle) and reports
//  how the attempt ended.  -> setup-cls, attempt-cls, attempt-what, changed sources (comma list), result rendering
#include "common.hpp"

using namespace chaiscript;

struct Obj {
  int v = 7;
  std::string s = "obj";
  void set(int x) { v = x; }
  int get() const { return v; }
  void rename(const std::string &n) { s = n; }
};

struct World {
  const int c_int = 42;
  const double c_dbl = 2.5;
  const std::string c_str = "const-text";
  const Obj c_obj{};
  const std::vector<Boxed_Value> c_vec{var(1), var(2), var(3)};
  const std::map<std::string, Boxed_Value> c_map{{"a", var(1)}};
  std::shared_ptr<const Obj> c_shared = std::make_shared<const Obj>();
  std::shared_ptr<const std::string> c_sstr = std::make_shared<const std::string>("shared-text");
  // values owned by the engine (const_var / add_global_const): handles kept for inspection
  Boxed_Value g_int, g_str, g_vec, g_obj, l_int, l_str;

  std::map<std::string, std::string> snapshot() const {
    std::map<std::string, std::string> m;
    m["ref_int"] = std::to_string(c_int);
    m["ptr_int"] = m["ref_int"];
    m["ref_dbl"] = std::to_string(c_dbl);
    m["ref_str"] = c_str;
    m["ptr_str"] = c_str;
    m["ref_obj"] = std::to_string(c_obj.v) + "/" + c_obj.s;
    m["ptr_obj"] = m["ref_obj"];
    m["ret_obj"] = m["ref_obj"];
    m["ret_str"] = c_str;
    m["ref_vec"] = std::to_string(c_vec.size());
    m["ref_map"] = std::to_string(c_map.size());
    m["shared_obj"] = std::to_string(c_shared->v) + "/" + c_shared->s;
    m["shared_str"] = *c_sstr;
    m["global_int"] = vh::render(g_int);
    m["global_str"] = vh::render(g_str);
    m["global_vec_size"] = std::to_string(boxed_cast<const std::vector<Boxed_Value> &>(g_vec).size());
    m["global_obj"] = std::to_string(boxed_cast<const Obj &>(g_obj).v);
    m["local_const_int"] = vh::render(l_int);
    m["local_const_str"] = vh::render(l_str);
    return m;
  }
};

int main(int argc, char **argv) {
  return vh::run_main(argc, argv, [](size_t, const vh::Fields &f) -> vh::Fields {
    if (f.size() < 4 || f[0] != "K") return {"bad-case"};
    World w;
    auto chai = vh::make_engine(true);
    chai->add(user_type<Obj>(), "Obj");
    chai->add(constructor<Obj()>(), "Obj");
    chai->add(constructor<Obj(const Obj &)>(), "Obj");
    chai->add(fun(&Obj::set), "set");
    chai->add(fun(&Obj::get), "get");
    chai->add(fun(&Obj::rename), "rename");
    chai->add(fun(&Obj::v), "v");
    chai->add(fun(&Obj::s), "s");
    // mutating harness functions of every parameter form
    chai->add(fun([](int &x) { x = 99; }), "mut_int_ref");
    chai->add(fun([](int *x) { *x = 98; }), "mut_int_ptr");
    chai->add(fun([](std::shared_ptr<int> x) { *x = 97; }), "mut_int_shared");
    chai->add(fun([](std::reference_wrapper<int> x) { x.get() = 96; }), "mut_int_refwrap");
    chai->add(fun([](double &x) { x = 9.5; }), "mut_dbl_ref");
    chai->add(fun([](std::string &x) { x = "MUT"; }), "mut_str_ref");
    chai->add(fun([](std::string *x) { *x = "MUT"; }), "mut_str_ptr");
    chai->add(fun([](std::shared_ptr<std::string> x) { *x = "MUT"; }), "mut_str_shared");
    chai->add(fun([](Obj &x) { x.v = 95; }), "mut_obj_ref");
    chai->add(fun([](Obj *x) { x->v = 94; }), "mut_obj_ptr");
    chai->add(fun([](std::shared_ptr<Obj> x) { x->v = 93; }), "mut_obj_shared");
    chai->add(fun([](std::vector<Boxed_Value> &x) { x.push_back(var(0)); }), "mut_vec_ref");
    chai->add(fun([](std::vector<Boxed_Value> *x) { x->clear(); }), "mut_vec_ptr");
    chai->add(fun([](std::map<std::string, Boxed_Value> &x) { x["zz"] = var(0); }), "mut_map_ref");
    // the const sources
    chai->add_global_const(const_var(std::cref(w.c_int)), "ref_int");
    chai->add_global_const(const_var(&w.c_int), "ptr_int");
    chai->add_global_const(const_var(std::cref(w.c_dbl)), "ref_dbl");
    chai->add_global_const(const_var(std::cref(w.c_str)), "ref_str");
    chai->add_global_const(const_var(&w.c_str), "ptr_str");
    chai->add_global_const(const_var(std::cref(w.c_obj)), "ref_obj");
    chai->add_global_const(const_var(&w.c_obj), "ptr_obj");
    chai->add_global_const(const_var(std::cref(w.c_vec)), "ref_vec");
    chai->add_global_const(const_var(std::cref(w.c_map)), "ref_map");
    chai->add_global_const(const_var(w.c_shared), "shared_obj");
    chai->add_global_const(const_var(w.c_sstr), "shared_str");
    const World *wp = &w;
    chai->add(fun([wp]() -> const Obj & { return wp->c_obj; }), "ret_obj");
    chai->add(fun([wp]() -> const std::string & { return wp->c_str; }), "ret_str");
    w.g_int = const_var(1234);
    w.g_str = const_var(std::string("global-text"));
    w.g_vec = const_var(std::vector<Boxed_Value>{var(5), var(6)});
    w.g_obj = const_var(Obj{});
    chai->add_global_const(w.g_int, "global_int");
    chai->add_global_const(w.g_str, "global_str");
    chai->add_global_const(w.g_vec, "global_vec");
    chai->add_global_const(w.g_obj, "global_obj");
    w.l_int = const_var(77);
    w.l_str = const_var(std::string("local-text"));
    chai->add(w.l_int, "local_const_int");
    chai->add(w.l_str, "local_const_str");

    // registered functions are const objects too: what a name denotes must not be replaceable
    chai->add(fun([]() { return 41; }), "host_fn");
    chai->add(const_var(chaiscript::fun([]() { return 44; })), "const_var_fn");
    auto fn_snapshot = [&](std::map<std::string, std::string> &m) {
      for (const char *n : {"host_fn", "script_fn", "const_var_fn"}) {
        vh::Outcome o = vh::classify([&]() -> std::string { return vh::render(chai->eval(std::string(n) + "()")); });
        m[n] = o.cls + ":" + o.what;
      }
    };

    vh::Capture cap;
    cap.begin();
    vh::Outcome s = vh::classify([&]() -> std::string {
      chai->eval("def script_fn() { 43 }");
      chai->eval(f[2]);
      return "";
    });
    if (s.cls != "ok") {
      cap.end();
      return {"setup-failed:" + s.cls, s.what};
    }
    auto before = w.snapshot();
    fn_snapshot(before);
    vh::Outcome a = vh::classify([&]() -> std::string { return vh::render(chai->eval(f[3])); });
    cap.end();
    auto after = w.snapshot();
    fn_snapshot(after);
    std::string changed;
    for (const auto &kv : before) {
      if (after.at(kv.first) != kv.second) changed += kv.first + "(" + kv.second + "->" + after.at(kv.first) + "),";
    }
    return {"ok", a.cls, a.cls == "ok" ? "" : a.what.substr(0, 160), changed, a.cls == "ok" ? a.what.substr(0, 120) : ""};
  });
}
