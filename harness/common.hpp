// Shared harness machinery: case files, fork-per-case runner with crash attribution,
// stdout capture, outcome classifier, value renderer, engine factories.
#ifndef VERIF_COMMON_HPP
#define VERIF_COMMON_HPP

#include <chaiscript/chaiscript_basic.hpp>
#include "libs.hpp"

#include <cerrno>
#include <csignal>
#include <cstdio>
#include <cstdlib>
#include <cstring>
#include <fcntl.h>
#include <fstream>
#include <functional>
#include <sstream>
#include <string>
#include <sys/mman.h>
#include <sys/resource.h>
#include <sys/stat.h>
#include <sys/wait.h>
#include <typeinfo>
#include <unistd.h>
#include <vector>
#include <cxxabi.h>

namespace vh {

  // ---------- escaping (tab separated fields, one record per line) ----------
  inline std::string esc(const std::string &s) {
    static const char *hex = "0123456789abcdef";
    std::string o;
    o.reserve(s.size() + 8);
    for (unsigned char c : s) {
      if (c == '\\') {
        o += "\\\\";
      } else if (c == '\t') {
        o += "\\t";
      } else if (c == '\n') {
        o += "\\n";
      } else if (c == '\r') {
        o += "\\r";
      } else if (c < 0x20 || c >= 0x7f) {
        o += "\\x";
        o += hex[c >> 4];
        o += hex[c & 15];
      } else {
        o += static_cast<char>(c);
      }
    }
    return o;
  }

  inline int hexval(char c) {
    if (c >= '0' && c <= '9') return c - '0';
    if (c >= 'a' && c <= 'f') return c - 'a' + 10;
    if (c >= 'A' && c <= 'F') return c - 'A' + 10;
    return 0;
  }

  inline std::string unesc(const std::string &s) {
    std::string o;
    o.reserve(s.size());
    for (size_t i = 0; i < s.size(); ++i) {
      if (s[i] != '\\' || i + 1 >= s.size()) {
        o += s[i];
        continue;
      }
      char n = s[++i];
      switch (n) {
        case '\\': o += '\\'; break;
        case 't': o += '\t'; break;
        case 'n': o += '\n'; break;
        case 'r': o += '\r'; break;
        case 'x':
          if (i + 2 < s.size()) {
            o += static_cast<char>(hexval(s[i + 1]) * 16 + hexval(s[i + 2]));
            i += 2;
          }
          break;
        default: o += n;
      }
    }
    return o;
  }

  inline std::vector<std::string> split_tabs(const std::string &line) {
    std::vector<std::string> f;
    size_t p = 0;
    while (true) {
      size_t q = line.find('\t', p);
      if (q == std::string::npos) {
        f.push_back(unesc(line.substr(p)));
        break;
      }
      f.push_back(unesc(line.substr(p, q - p)));
      p = q + 1;
    }
    return f;
  }

  using Fields = std::vector<std::string>;

  inline std::vector<Fields> read_cases(const char *path) {
    std::vector<Fields> cases;
    std::ifstream in(path, std::ios::binary);
    if (!in) {
      std::fprintf(stderr, "cannot open cases file %s\n", path);
      std::exit(2);
    }
    std::string line;
    while (std::getline(in, line)) {
      cases.push_back(split_tabs(line));
    }
    return cases;
  }

  inline std::string demangle(const char *n) {
    int st = 0;
    char *d = abi::__cxa_demangle(n, nullptr, nullptr, &st);
    std::string r = (st == 0 && d) ? d : n;
    std::free(d);
    return r;
  }

  // ---------- stdout capture ----------
  struct Capture {
    int saved = -1;
    int mfd = -1;
    void begin() {
      std::fflush(stdout);
      mfd = memfd_create("cap", 0);
      saved = dup(1);
      dup2(mfd, 1);
    }
    std::string end() {
      std::fflush(stdout);
      std::string out;
      if (mfd >= 0) {
        off_t n = lseek(mfd, 0, SEEK_END);
        lseek(mfd, 0, SEEK_SET);
        out.resize(static_cast<size_t>(n));
        size_t got = 0;
        while (got < out.size()) {
          ssize_t r = read(mfd, &out[got], out.size() - got);
          if (r <= 0) break;
          got += static_cast<size_t>(r);
        }
        dup2(saved, 1);
        close(saved);
        close(mfd);
        mfd = saved = -1;
      }
      return out;
    }
  };

  // ---------- value rendering ----------
  inline std::string num_type_name(const chaiscript::Type_Info &ti) {
    using namespace chaiscript;
#define VH_T(T) \
  if (ti.bare_equal_type_info(typeid(T))) return #T;
    VH_T(int) VH_T(double) VH_T(float) VH_T(long double) VH_T(char) VH_T(unsigned char) VH_T(signed char) VH_T(short) VH_T(unsigned short)
    VH_T(unsigned int) VH_T(long) VH_T(unsigned long) VH_T(long long) VH_T(unsigned long long) VH_T(wchar_t) VH_T(char16_t) VH_T(char32_t)
#undef VH_T
    return demangle(ti.bare_name());
  }

  inline std::string render(const chaiscript::Boxed_Value &bv, int depth = 0) {
    using namespace chaiscript;
    if (depth > 8) return "<deep>";
    if (bv.is_undef()) return "undef";
    const Type_Info &ti = bv.get_type_info();
    if (ti.is_void() || ti.bare_equal_type_info(typeid(void))) return "void";
    if (bv.is_null()) return "null:" + demangle(ti.bare_name());
    try {
      if (ti.bare_equal_type_info(typeid(bool))) return std::string("bool:") + (boxed_cast<bool>(bv) ? "true" : "false");
      if (ti.is_arithmetic()) {
        Boxed_Number n(bv);
        std::string t = num_type_name(ti);
        if (ti.bare_equal_type_info(typeid(char))) return "char:" + std::to_string(static_cast<int>(n.get_as<char>()));
        if (ti.bare_equal_type_info(typeid(float)) || ti.bare_equal_type_info(typeid(double)) || ti.bare_equal_type_info(typeid(long double))) {
          char buf[64];
          if (ti.bare_equal_type_info(typeid(float))) {
            std::snprintf(buf, sizeof buf, "%.9g", static_cast<double>(n.get_as<float>()));
          } else if (ti.bare_equal_type_info(typeid(double))) {
            std::snprintf(buf, sizeof buf, "%.17g", n.get_as<double>());
          } else {
            std::snprintf(buf, sizeof buf, "%.21Lg", n.get_as<long double>());
          }
          return t + ":" + buf;
        }
        return t + ":" + n.to_string();
      }
      if (ti.bare_equal_type_info(typeid(std::string))) return "string:" + esc(boxed_cast<const std::string &>(bv));
      if (ti.bare_equal_type_info(typeid(std::vector<Boxed_Value>))) {
        const auto &v = boxed_cast<const std::vector<Boxed_Value> &>(bv);
        std::string o = "[";
        for (size_t i = 0; i < v.size(); ++i) {
          if (i) o += ", ";
          o += render(v[i], depth + 1);
        }
        return o + "]";
      }
      if (ti.bare_equal_type_info(typeid(std::map<std::string, Boxed_Value>))) {
        const auto &m = boxed_cast<const std::map<std::string, Boxed_Value> &>(bv);
        std::string o = "{";
        bool first = true;
        for (const auto &kv : m) {
          if (!first) o += ", ";
          first = false;
          o += esc(kv.first) + ": " + render(kv.second, depth + 1);
        }
        return o + "}";
      }
      if (ti.bare_equal_type_info(typeid(std::pair<Boxed_Value, Boxed_Value>))) {
        const auto &p = boxed_cast<const std::pair<Boxed_Value, Boxed_Value> &>(bv);
        return "<" + render(p.first, depth + 1) + ", " + render(p.second, depth + 1) + ">";
      }
      if (ti.bare_equal_type_info(typeid(dispatch::Dynamic_Object))) {
        const auto &d = boxed_cast<const dispatch::Dynamic_Object &>(bv);
        std::string o = "obj:" + d.get_type_name() + "{";
        bool first = true;
        for (const auto &kv : d.get_attrs()) {
          if (!first) o += ", ";
          first = false;
          o += kv.first + ": " + render(kv.second, depth + 1);
        }
        return o + "}";
      }
      if (ti.bare_equal_type_info(typeid(dispatch::Proxy_Function_Base))) return "function";
    } catch (const std::exception &e) {
      return std::string("<render-error ") + e.what() + ">";
    }
    return "cpp:" + demangle(ti.bare_name());
  }

  // ---------- outcome classification ----------
  struct Outcome {
    std::string cls; // ok | eval_error | arithmetic_error | bad_boxed_cast | dispatch_error | file_not_found | boxed | std | unknown ...
    std::string what; // rendering / reason
    std::string extra; // dynamic type name for std exceptions
  };

  template<typename F>
  Outcome classify(F &&f) {
    using namespace chaiscript;
    Outcome o;
    try {
      o.what = f();
      o.cls = "ok";
    } catch (const exception::eval_error &e) {
      o.cls = "eval_error";
      o.what = e.reason;
      o.extra = std::to_string(e.start_position.line) + ":" + std::to_string(e.start_position.column) + ":" + e.filename;
    } catch (const exception::arithmetic_error &e) {
      o.cls = "arithmetic_error";
      o.what = e.what();
    } catch (const exception::bad_boxed_cast &e) {
      o.cls = "bad_boxed_cast";
      o.what = e.what();
      o.extra = demangle(typeid(e).name());
    } catch (const exception::dispatch_error &e) {
      o.cls = "dispatch_error";
      o.what = e.what();
    } catch (const exception::file_not_found_error &e) {
      o.cls = "file_not_found";
      o.what = e.what();
    } catch (const exception::load_module_error &e) {
      o.cls = "load_module_error";
      o.what = e.what();
    } catch (const Boxed_Value &bv) {
      o.cls = "boxed";
      o.what = render(bv);
    } catch (const std::exception &e) {
      o.cls = "std";
      o.what = e.what();
      o.extra = demangle(typeid(e).name());
    } catch (...) {
      o.cls = "unknown";
      std::type_info *t = abi::__cxa_current_exception_type();
      o.extra = t ? demangle(t->name()) : "?";
    }
    return o;
  }

  // ---------- engine factories ----------
  inline std::shared_ptr<chaiscript::Module> &stdlib_singleton() {
    static std::shared_ptr<chaiscript::Module> m = verif_create_stdlib();
    return m;
  }

  inline std::unique_ptr<chaiscript::ChaiScript_Basic> make_engine(bool optimize = true,
                                                                  std::vector<std::string> modulepaths = {},
                                                                  std::vector<std::string> usepaths = {},
                                                                  std::vector<chaiscript::Options> opts = chaiscript::default_options()) {
    return std::make_unique<chaiscript::ChaiScript_Basic>(stdlib_singleton(),
                                                          optimize ? verif_create_parser_opt() : verif_create_parser_noopt(),
                                                          std::move(modulepaths),
                                                          std::move(usepaths),
                                                          opts);
  }

  // ---------- fork-per-case runner ----------
  // argv: <cases> <log> [timeout_s] [nofork]
  // per case: child runs fn(k, fields) -> Fields ; writes "END\tk\t..." ; parent writes "CRASH\tk\tstatus\tstderr" on abnormal end.
  using CaseFn = std::function<Fields(size_t, const Fields &)>;

  inline void write_all(int fd, const std::string &s) {
    size_t off = 0;
    while (off < s.size()) {
      ssize_t w = ::write(fd, s.data() + off, s.size() - off);
      if (w < 0) {
        if (errno == EINTR) continue;
        break;
      }
      off += static_cast<size_t>(w);
    }
  }

  inline std::string join_fields(const char *tag, size_t k, const Fields &f) {
    std::string line = tag;
    line += '\t';
    line += std::to_string(k);
    for (const auto &x : f) {
      line += '\t';
      line += esc(x);
    }
    line += '\n';
    return line;
  }

  inline std::string read_tail(const std::string &path, size_t maxbytes) {
    // head + tail: the head of a sanitizer report names the error and the innermost frames
    std::ifstream in(path, std::ios::binary);
    if (!in) return "";
    in.seekg(0, std::ios::end);
    auto sz = static_cast<size_t>(in.tellg());
    in.seekg(0);
    if (sz <= maxbytes) {
      std::string s(sz, '\0');
      in.read(&s[0], static_cast<std::streamsize>(sz));
      return s;
    }
    const size_t half = maxbytes / 2;
    std::string head(half, '\0'), tail(half, '\0');
    in.read(&head[0], static_cast<std::streamsize>(half));
    in.seekg(static_cast<std::streamoff>(sz - half));
    in.read(&tail[0], static_cast<std::streamsize>(half));
    return head + "\n...[cut]...\n" + tail;
  }

  inline int run_main(int argc, char **argv, const CaseFn &fn, const std::function<void()> &init = {}) {
    // argv: <cases> <log> [timeout_s] [fork|nofork] [batch]
    // A child process runs a batch of cases; the index of the case in progress is published through shared memory,
    // so that an abnormal end is attributed to exactly one case and the next child resumes after it.
    if (argc < 3) {
      std::fprintf(stderr, "usage: %s <cases> <log> [timeout_s] [fork|nofork] [batch]\n", argv[0]);
      return 2;
    }
    auto cases = read_cases(argv[1]);
    const std::string logpath = argv[2];
    unsigned timeout_s = argc > 3 ? static_cast<unsigned>(std::atoi(argv[3])) : 60;
    bool nofork = argc > 4 && std::string(argv[4]) == "nofork";
    size_t batch = argc > 5 ? static_cast<size_t>(std::atoi(argv[5])) : 32;
    if (batch == 0) batch = 1;
    int logfd = ::open(logpath.c_str(), O_WRONLY | O_CREAT | O_APPEND, 0644);
    if (logfd < 0) {
      std::perror("open log");
      return 2;
    }
    const std::string errpath = logpath + ".err";
    auto *progress = static_cast<volatile size_t *>(mmap(nullptr, 4096, PROT_READ | PROT_WRITE, MAP_SHARED | MAP_ANONYMOUS, -1, 0));
    if (progress == MAP_FAILED) {
      std::perror("mmap");
      return 2;
    }
    if (init) init();
    size_t k = 0;
    while (k < cases.size()) {
      const size_t hi = std::min(cases.size(), k + batch);
      if (nofork) {
        for (size_t j = k; j < hi; ++j) {
          Fields r = fn(j, cases[j]);
          write_all(logfd, join_fields("END", j, r));
        }
        k = hi;
        continue;
      }
      std::fflush(stdout);
      std::fflush(stderr);
      *progress = k;
      pid_t pid = fork();
      if (pid < 0) {
        std::perror("fork");
        return 2;
      }
      if (pid == 0) {
        int efd = ::open(errpath.c_str(), O_WRONLY | O_CREAT | O_TRUNC, 0644);
        if (efd >= 0) {
          dup2(efd, 2);
          close(efd);
        }
        for (size_t j = k; j < hi; ++j) {
          *progress = j;
          alarm(timeout_s);
          Fields r = fn(j, cases[j]);
          write_all(logfd, join_fields("END", j, r));
        }
        std::fflush(stdout);
        _exit(0);
      }
      int status = 0;
      while (waitpid(pid, &status, 0) < 0 && errno == EINTR) {
      }
      if (WIFEXITED(status) && WEXITSTATUS(status) == 0) {
        k = hi;
      } else {
        const size_t j = *progress;
        Fields r;
        if (WIFSIGNALED(status)) {
          r.push_back("signal=" + std::to_string(WTERMSIG(status)));
        } else {
          r.push_back("exit=" + std::to_string(WEXITSTATUS(status)));
        }
        r.push_back(read_tail(errpath, 12000));
        write_all(logfd, join_fields("CRASH", j, r));
        k = j + 1;
      }
    }
    ::unlink(errpath.c_str());
    close(logfd);
    return 0;
  }

} // namespace vh

#endif
