// The real parser and evaluator with an identity optimizer: no tree rewriting at all.
#include <chaiscript/language/chaiscript_parser.hpp>
#include "libs.hpp"
namespace verif {
  struct Noop_Pass {
    template<typename T>
    auto optimize(chaiscript::eval::AST_Node_Impl_Ptr<T> p) {
      return p;
    }
  };
} // namespace verif
std::unique_ptr<chaiscript::parser::ChaiScript_Parser_Base> verif_create_parser_noopt() {
  return std::make_unique<chaiscript::parser::ChaiScript_Parser<chaiscript::eval::Noop_Tracer, chaiscript::optimizer::Optimizer<verif::Noop_Pass>>>();
}
