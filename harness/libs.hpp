// Factories implemented in the three engine TUs (stdlib.cpp, parser_opt.cpp, parser_noopt.cpp).
// Harness TUs include only chaiscript_basic.hpp + this header, so that the expensive
// template instantiations are compiled once per flavour.
#ifndef VERIF_LIBS_HPP
#define VERIF_LIBS_HPP
#include <memory>
namespace chaiscript {
  class Module;
  namespace parser {
    class ChaiScript_Parser_Base;
  }
} // namespace chaiscript

std::shared_ptr<chaiscript::Module> verif_create_stdlib();
std::unique_ptr<chaiscript::parser::ChaiScript_Parser_Base> verif_create_parser_opt();
std::unique_ptr<chaiscript::parser::ChaiScript_Parser_Base> verif_create_parser_noopt();
#endif
