// Generic step-by-step evaluation harness (C12, C17, C15-like histories):
//   SEQ  vars  stmt1 stmt2 ...     fresh engine; each stmt evaluated in order at top level; after each one the listed
//                                  variables (comma separated, may be empty) are rendered from C++.
//   per step output field:  cls US rendered-value US what US stdout US dump(var1) US dump(var2) ...
#include "common.hpp"
#include <list>

using namespace chaiscript;

static const char US = '\x1f';

static std::string render_ext(const Boxed_Value &bv) {
  const Type_Info &ti = bv.get_type_info();
  if (!bv.is_undef() && !bv.is_null() && ti.bare_equal_type_info(typeid(std::list<Boxed_Value>))) {
    const auto &l = boxed_cast<const std::list<Boxed_Value> &>(bv);
    std::string o = "list[";
    bool first = true;
    for (const auto &e : l) {
      if (!first) o += ", ";
      first = false;
      o += vh::render(e);
    }
    return o + "]";
  }
  return vh::render(bv);
}

int main(int argc, char **argv) {
  return vh::run_main(argc, argv, [](size_t, const vh::Fields &f) -> vh::Fields {
    if (f.size() < 2 || f[0] != "SEQ") return {"bad-case"};
    std::vector<std::string> vars;
    {
      std::string cur;
      for (char c : f[1]) {
        if (c == ',') {
          if (!cur.empty()) vars.push_back(cur);
          cur.clear();
        } else {
          cur += c;
        }
      }
      if (!cur.empty()) vars.push_back(cur);
    }
    auto chai = vh::make_engine(true);
    // const containers (the const overloads of [] / front / back / range are separate bindings)
    chai->add_global_const(const_var(std::vector<Boxed_Value>{var(10), var(20), var(30)}), "cvec3");
    chai->add_global_const(const_var(std::vector<Boxed_Value>{}), "cvec0");
    chai->add_global_const(const_var(std::string("const")), "cstr5");
    chai->add_global_const(const_var(std::string("")), "cstr0");
    vh::Fields out;
    for (size_t i = 2; i < f.size(); ++i) {
      std::string rendered;
      vh::Capture cap;
      cap.begin();
      vh::Outcome o = vh::classify([&]() -> std::string {
        Boxed_Value bv = chai->eval(f[i]);
        rendered = render_ext(bv);
        return "";
      });
      std::string so = cap.end();
      std::string rec = o.cls + US + rendered + US + o.what + (o.extra.empty() ? "" : " [" + o.extra + "]") + US + so;
      for (const auto &v : vars) {
        std::string d;
        try {
          d = render_ext(chai->eval(v));
        } catch (const std::exception &e) {
          d = std::string("<unreadable: ") + e.what() + ">";
        } catch (...) {
          d = "<unreadable>";
        }
        rec += US + d;
      }
      out.push_back(rec);
    }
    return out;
  });
}
