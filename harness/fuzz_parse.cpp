// libFuzzer target for C01 (thorough tier): the same oracle as c01_parse.cpp, in process.
// Any outcome other than a tree that accounts for the whole input or an eval_error aborts with a message (the driver re-runs the
// artifact through the ordinary ASan harness to key it).
#define C01_NO_MAIN
#include "c01_parse.cpp"

extern "C" int LLVMFuzzerInitialize(int *, char ***) {
  g_chai = vh::make_engine(true);
  return 0;
}

extern "C" int LLVMFuzzerTestOneInput(const uint8_t *data, size_t size) {
  std::string input(reinterpret_cast<const char *>(data), size);
  vh::Fields r = do_parse(input);
  if (r[0] == "ok") {
    if (r[3] != "0") {
      std::fprintf(stderr, "C01-ORACLE dropped-input remaining=%s\n", r[3].c_str());
      std::abort();
    }
  } else if (r[0] != "eval_error") {
    std::fprintf(stderr, "C01-ORACLE wrong-exception %s %s\n", r[0].c_str(), r[2].c_str());
    std::abort();
  }
  return 0;
}
