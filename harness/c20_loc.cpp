// C20: run-time errors point at the construct that failed.
//  L  k  name1 src1 ... namek srck     chunks evaluated in order with eval(src, handler, name); name "@use:<path>" means chai.use(path)
//  -> cls, reason, then one field per call_stack entry: type|file|line|col
#include "common.hpp"

using namespace chaiscript;

int main(int argc, char **argv) {
  return vh::run_main(argc, argv, [](size_t, const vh::Fields &f) -> vh::Fields {
    if (f.size() < 2 || f[0] != "L") return {"bad-case"};
    auto chai = vh::make_engine(true);
    size_t k = std::stoul(f[1]);
    vh::Fields out;
    vh::Capture cap;
    cap.begin();
    try {
      for (size_t i = 0; i < k; ++i) {
        const std::string &name = f[2 + 2 * i];
        const std::string &src = f[3 + 2 * i];
        if (name.rfind("@use:", 0) == 0) {
          chai->use(name.substr(5));
        } else {
          chai->eval(src, Exception_Handler(), name);
        }
      }
      out = {"returned", ""};
    } catch (const exception::eval_error &e) {
      out = {"eval_error", e.reason};
      for (const auto &n : e.call_stack) {
        out.push_back(std::string(ast_node_type_to_string(n.identifier)) + "|" + n.filename() + "|" + std::to_string(n.start().line) + "|"
                      + std::to_string(n.start().column));
      }
    } catch (const std::exception &e) {
      out = {"other", e.what()};
    } catch (...) {
      out = {"other", "?"};
    }
    cap.end();
    return out;
  });
}
