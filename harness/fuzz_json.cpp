// libFuzzer target for C18 (thorough tier): from_json on arbitrary bytes; accepted texts must survive to_json/from_json.
#define C18_NO_MAIN
#include "c18_json.cpp"

extern "C" int LLVMFuzzerInitialize(int *, char ***) {
  g_chai = vh::make_engine(true);
  g_from = g_chai->eval<std::function<Boxed_Value(const std::string &)>>("from_json");
  g_to = g_chai->eval<std::function<std::string(const Boxed_Value &)>>("to_json");
  return 0;
}

extern "C" int LLVMFuzzerTestOneInput(const uint8_t *data, size_t size) {
  std::string input(reinterpret_cast<const char *>(data), size);
  vh::Fields r = text_case(input, true);
  if (r[0].rfind("accepted-but", 0) == 0) {
    std::fprintf(stderr, "C18-ORACLE %s %s\n", r[0].c_str(), r[1].c_str());
    std::abort();
  }
  return 0;
}
