// C19: eval_file == eval(bytes minus one BOM); use() evaluates once, searches paths in order.
//  F path content     engine A: eval_file(path) ; engine B: eval(content') where content' = content minus one leading BOM
//                     -> for each side: cls, rendered, reason, position, stdout, bytes the parser was handed (hook H3b)
//  M path             eval_file(path) of a missing file -> cls
//  U npaths p1..pn op...   one engine with use paths p1..pn; ops: use:NAME | script-use:NAME | eval_file:PATH | script-eval_file:NAME
//                     -> per op: cls US what US bump-log (comma separated)
#include "common.hpp"

using namespace chaiscript;
static const char US = '\x1f';

static std::vector<std::string> g_bumps;

static vh::Fields side(ChaiScript_Basic &chai, const std::function<Boxed_Value()> &f) {
  std::string rendered;
  verif::first_parse_input_size = static_cast<size_t>(-1);
  vh::Capture cap;
  cap.begin();
  vh::Outcome o = vh::classify([&]() -> std::string {
    rendered = vh::render(f());
    return "";
  });
  std::string out = cap.end();
  std::string pos = o.extra;
  // drop the file name part of the position (it legitimately differs between eval_file and eval)
  size_t c2 = pos.find(':');
  if (c2 != std::string::npos) c2 = pos.find(':', c2 + 1);
  if (o.cls == "eval_error" && c2 != std::string::npos) pos = pos.substr(0, c2);
  return {o.cls, rendered, o.cls == "eval_error" ? o.what : "", pos, out, std::to_string(static_cast<long long>(verif::first_parse_input_size))};
}

int main(int argc, char **argv) {
  return vh::run_main(argc, argv, [](size_t, const vh::Fields &f) -> vh::Fields {
    if (f.size() >= 3 && f[0] == "F") {
      std::string content = f[2];
      if (content.size() >= 3 && content.compare(0, 3, "\xef\xbb\xbf") == 0) content.erase(0, 3);
      auto a = vh::make_engine(true);
      auto b = vh::make_engine(true);
      vh::Fields ra = side(*a, [&] { return a->eval_file(f[1]); });
      vh::Fields rb = side(*b, [&] { return b->eval(content, Exception_Handler(), f[1]); });
      ra.insert(ra.end(), rb.begin(), rb.end());
      return ra;
    }
    if (f.size() >= 2 && f[0] == "M") {
      auto a = vh::make_engine(true);
      vh::Outcome o = vh::classify([&]() -> std::string {
        a->eval_file(f[1]);
        return "";
      });
      vh::Outcome o2 = vh::classify([&]() -> std::string {
        a->eval("eval_file(\"" + f[1] + "\")");
        return "";
      });
      return {o.cls, o.what, o2.cls, o2.what};
    }
    if (f.size() >= 2 && f[0] == "U") {
      size_t np = std::stoul(f[1]);
      std::vector<std::string> paths(f.begin() + 2, f.begin() + 2 + static_cast<long>(np));
      auto chai = vh::make_engine(true, {}, paths);
      chai->add(fun([](const std::string &s) { g_bumps.push_back(s); }), "bump");
      vh::Fields out;
      for (size_t i = 2 + np; i < f.size(); ++i) {
        const std::string &op = f[i];
        size_t c = op.find(':');
        std::string kind = op.substr(0, c), arg = op.substr(c + 1);
        g_bumps.clear();
        vh::Outcome o = vh::classify([&]() -> std::string {
          if (kind == "use") chai->use(arg);
          else if (kind == "script-use") chai->eval("use(\"" + arg + "\")");
          else if (kind == "eval_file") chai->eval_file(arg);
          else if (kind == "script-eval_file") chai->eval("eval_file(\"" + arg + "\")");
          else throw std::logic_error("bad op");
          return "";
        });
        std::string log;
        for (auto &b : g_bumps) log += (log.empty() ? "" : ",") + b;
        std::string detail = o.cls == "boxed" ? o.what : o.what;
        out.push_back(o.cls + US + detail + US + log);
      }
      return out;
    }
    return {"bad-case"};
  });
}
