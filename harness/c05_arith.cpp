// C05: script arithmetic == C++ arithmetic. The oracle is the host compiler: for every (operator, L, R, l, r)
// the expected value/type is computed natively in this TU; cells whose C++ behaviour is undefined and does not trap
// are skipped by a predicate evaluated in __int128 / long double *before* anything is executed; cells that trap
// (x/0, x%0, min/-1, min%-1) are kept and must raise. A SIGFPE raised inside the engine is caught (sigsetjmp) and
// reported as a witness; the engine is rebuilt afterwards.
#include "common.hpp"
#include <cmath>
#include <csetjmp>
#include <limits>
#include <map>
#include <optional>
#include <tuple>

using namespace chaiscript;

static std::unique_ptr<ChaiScript_Basic> g_chai;
static sigjmp_buf g_jmp;
static volatile sig_atomic_t g_armed = 0;

static void on_fpe(int) {
  if (g_armed) {
    g_armed = 0;
    siglongjmp(g_jmp, 1);
  }
  signal(SIGFPE, SIG_DFL);
  raise(SIGFPE);
}

// ------------------------------------------------------------------ type catalogue
template<typename T> struct TName;
#define TN(T, N) template<> struct TName<T> { static const char *name() { return N; } };
TN(char, "char") TN(signed char, "schar") TN(unsigned char, "uchar") TN(short, "short") TN(unsigned short, "ushort") TN(int, "int")
TN(unsigned int, "uint") TN(long, "long") TN(unsigned long, "ulong") TN(long long, "llong") TN(unsigned long long, "ullong")
TN(float, "float") TN(double, "double") TN(long double, "ldouble") TN(bool, "bool")
#undef TN

using Types = std::tuple<char, signed char, unsigned char, short, unsigned short, int, unsigned int, long, unsigned long, long long,
                         unsigned long long, float, double, long double>;
constexpr size_t NT = std::tuple_size<Types>::value;

struct Cls {
  size_t size;
  bool sgn;
  bool fp;
  bool isbool;
  bool operator==(const Cls &o) const { return size == o.size && sgn == o.sgn && fp == o.fp && isbool == o.isbool; }
  std::string str() const {
    return isbool ? "bool" : (std::string(fp ? "f" : (sgn ? "i" : "u")) + std::to_string(size * 8));
  }
};

template<typename T> Cls cls_of() {
  if constexpr (std::is_same_v<T, bool>) {
    return {1, false, false, true};
  } else {
    return {sizeof(T), std::is_signed_v<T>, std::is_floating_point_v<T>, false};
  }
}

static std::optional<Cls> cls_of_ti(const Type_Info &ti) {
#define C(T) if (ti.bare_equal_type_info(typeid(T))) return cls_of<T>();
  C(bool) C(char) C(signed char) C(unsigned char) C(short) C(unsigned short) C(int) C(unsigned int) C(long) C(unsigned long) C(long long)
  C(unsigned long long) C(float) C(double) C(long double) C(wchar_t) C(char16_t) C(char32_t)
#undef C
  return std::nullopt;
}

template<typename T> std::string show(T v) {
  char buf[80];
  if constexpr (std::is_same_v<T, bool>) {
    return v ? "true" : "false";
  } else if constexpr (std::is_floating_point_v<T>) {
    std::snprintf(buf, sizeof buf, "%.21Lg", static_cast<long double>(v));
    return buf;
  } else if constexpr (std::is_signed_v<T>) {
    return std::to_string(static_cast<long long>(v));
  } else {
    return std::to_string(static_cast<unsigned long long>(v));
  }
}

// read the value held by a Boxed_Value whose class equals cls_of<E>()
template<typename E> E read_as(const Boxed_Value &bv) {
  return *static_cast<const E *>(bv.get_const_ptr());
}

template<typename E> bool same_value(E a, E b) {
  if constexpr (std::is_floating_point_v<E>) {
    if (std::isnan(a) || std::isnan(b)) return std::isnan(a) && std::isnan(b);
    return a == b && std::signbit(a) == std::signbit(b);
  } else {
    return a == b;
  }
}

template<typename T> std::vector<T> values() {
  using L = std::numeric_limits<T>;
  std::vector<T> v;
  if constexpr (std::is_floating_point_v<T>) {
    v = {T(0), T(-0.0), T(1), T(-1), T(0.5), T(-2.5), T(3), T(1000000), L::max(), L::lowest(), L::min(), L::denorm_min(), L::infinity(),
         -L::infinity(), L::quiet_NaN(), T(2147483648.0), T(-2147483649.0), T(1e18), T(255), T(65536)};
  } else {
    v = {T(0), T(1), T(2), T(3), T(7), L::max(), T(L::max() - 1), L::min(), T(L::min() + 1), T(L::max() / 2 + 1), T(L::max() / 2), T(31), T(32),
         T(63), T(64), T(8), T(100)};
    if constexpr (std::is_signed_v<T>) {
      v.push_back(T(-1));
      v.push_back(T(-2));
      v.push_back(T(-7));
    }
  }
  return v;
}

// ------------------------------------------------------------------ literal spelling (routes 3/4)
template<typename T> std::string literal(T v) {
  char buf[128];
  if constexpr (std::is_same_v<T, int> || std::is_same_v<T, long> || std::is_same_v<T, long long>) {
    const char *suf = std::is_same_v<T, int> ? "" : (std::is_same_v<T, long> ? "l" : "ll");
    if (v == std::numeric_limits<T>::min()) return ""; // -(max+1): the positive literal would not have this type
    if (v < 0) return "-" + std::to_string(-v) + suf;
    return std::to_string(v) + suf;
  } else if constexpr (std::is_same_v<T, unsigned int> || std::is_same_v<T, unsigned long> || std::is_same_v<T, unsigned long long>) {
    const char *suf = std::is_same_v<T, unsigned int> ? "u" : (std::is_same_v<T, unsigned long> ? "ul" : "ull");
    return std::to_string(v) + suf;
  } else if constexpr (std::is_floating_point_v<T>) {
    const char *suf = std::is_same_v<T, float> ? "f" : (std::is_same_v<T, double> ? "" : "l");
    if (std::isnan(v)) return std::is_same_v<T, double> ? "NaN" : "";
    if (std::isinf(v)) return std::is_same_v<T, double> ? (v < 0 ? "-Infinity" : "Infinity") : "";
    if (v != std::floor(v) * T(1) && v != T(0.5) && v != T(-2.5)) return "";
    if (std::fabs(v) > T(1e15) || (v != 0 && std::fabs(v) < T(1e-3))) return "";
    std::snprintf(buf, sizeof buf, "%.1Lf", static_cast<long double>(v));
    std::string s = buf;
    if (s == "-0.0") return "";
    return s + suf;
  } else if constexpr (std::is_same_v<T, char>) {
    if (v >= 'a' && v <= 'z') return std::string("'") + v + "'";
    return "";
  } else {
    return "";
  }
}

// ------------------------------------------------------------------ operators
enum class Kind { Cmp, AddSubMul, Div, Mod, Shift, Bit };
struct OpDesc {
  const char *text;
  Kind kind;
  bool int_only;
};
static constexpr OpDesc BIN[] = {
    {"==", Kind::Cmp, false}, {"!=", Kind::Cmp, false}, {"<", Kind::Cmp, false}, {"<=", Kind::Cmp, false}, {">", Kind::Cmp, false},
    {">=", Kind::Cmp, false}, {"+", Kind::AddSubMul, false}, {"-", Kind::AddSubMul, false}, {"*", Kind::AddSubMul, false},
    {"/", Kind::Div, false}, {"%", Kind::Mod, true}, {"<<", Kind::Shift, true}, {">>", Kind::Shift, true}, {"&", Kind::Bit, true},
    {"|", Kind::Bit, true}, {"^", Kind::Bit, true}};
constexpr size_t NBIN = sizeof(BIN) / sizeof(BIN[0]);

template<size_t I, typename A, typename B> auto native_bin(A a, B b) {
  if constexpr (I == 0) return a == b;
  else if constexpr (I == 1) return a != b;
  else if constexpr (I == 2) return a < b;
  else if constexpr (I == 3) return a <= b;
  else if constexpr (I == 4) return a > b;
  else if constexpr (I == 5) return a >= b;
  else if constexpr (I == 6) return a + b;
  else if constexpr (I == 7) return a - b;
  else if constexpr (I == 8) return a * b;
  else if constexpr (I == 9) return a / b;
  else if constexpr (I == 10) return a % b;
  else if constexpr (I == 11) return a << b;
  else if constexpr (I == 12) return a >> b;
  else if constexpr (I == 13) return a & b;
  else if constexpr (I == 14) return a | b;
  else return a ^ b;
}

enum class Exp { Value, Trap, Skip };

template<size_t I, typename L, typename R> Exp expectation(L l, R r) {
  constexpr Kind k = BIN[I].kind;
  using C = decltype(L{} + R{});
  if constexpr (k == Kind::Cmp || k == Kind::Bit) {
    return Exp::Value;
  } else if constexpr (k == Kind::Shift) {
    using PL = decltype(+L{});
    if constexpr (std::is_signed_v<R>) {
      if (r < 0) return Exp::Skip;
    }
    if (static_cast<unsigned long long>(r) >= sizeof(PL) * 8) return Exp::Skip;
    return Exp::Value;
  } else if constexpr (std::is_floating_point_v<C>) {
    return Exp::Value;
  } else if constexpr (k == Kind::AddSubMul) {
    if constexpr (std::is_signed_v<C>) {
      __int128 a = static_cast<C>(l), b = static_cast<C>(r);
      __int128 res = I == 6 ? a + b : (I == 7 ? a - b : a * b);
      if (res > static_cast<__int128>(std::numeric_limits<C>::max()) || res < static_cast<__int128>(std::numeric_limits<C>::min())) return Exp::Skip;
    }
    return Exp::Value;
  } else { // Div / Mod on integral common type
    C cl = static_cast<C>(l), cr = static_cast<C>(r);
    if (cr == 0) return Exp::Trap;
    if constexpr (std::is_signed_v<C>) {
      if (cl == std::numeric_limits<C>::min() && cr == C(-1)) return Exp::Trap;
    }
    return Exp::Value;
  }
}

// is converting value e (type E) to type T well defined?
template<typename T, typename E> bool conv_defined(E e) {
  if constexpr (std::is_floating_point_v<E> && std::is_integral_v<T>) {
    if (std::isnan(e)) return false;
    long double t = std::trunc(static_cast<long double>(e));
    return t >= static_cast<long double>(std::numeric_limits<T>::min()) && t <= static_cast<long double>(std::numeric_limits<T>::max())
        && !(t == static_cast<long double>(std::numeric_limits<T>::max()) && sizeof(T) == 8); // 2^63/2^64 edge is not representable: be safe
  } else if constexpr (std::is_floating_point_v<E> && std::is_floating_point_v<T>) {
    if (std::isnan(e) || std::isinf(e)) return true;
    return std::fabs(static_cast<long double>(e)) <= static_cast<long double>(std::numeric_limits<T>::max());
  } else {
    return true;
  }
}

// ------------------------------------------------------------------ type-erased values (keeps template code tiny)
struct Val {
  Cls cls{};
  long long i = 0;
  unsigned long long u = 0;
  long double f = 0;
  std::string shown;
};

template<typename T> Val make_val(T v) {
  Val x;
  x.cls = cls_of<T>();
  if constexpr (std::is_same_v<T, bool>) x.u = v ? 1 : 0;
  else if constexpr (std::is_floating_point_v<T>) x.f = v;
  else if constexpr (std::is_signed_v<T>) x.i = v;
  else x.u = v;
  x.shown = x.cls.str() + ":" + show(v);
  return x;
}

static bool read_val(const Boxed_Value &bv, Val &out) {
  auto c = cls_of_ti(bv.get_type_info());
  if (!c) return false;
  const void *p = bv.get_const_ptr();
  if (!p) return false;
  out.cls = *c;
  if (c->isbool) {
    out.u = *static_cast<const bool *>(p) ? 1 : 0;
    out.shown = std::string("bool:") + (out.u ? "true" : "false");
  } else if (c->fp) {
    out.f = c->size == 4 ? static_cast<long double>(*static_cast<const float *>(p))
                         : (c->size == 8 ? static_cast<long double>(*static_cast<const double *>(p)) : *static_cast<const long double *>(p));
    out.shown = c->str() + ":" + show(out.f);
  } else if (c->sgn) {
    out.i = c->size == 1 ? *static_cast<const signed char *>(p)
                         : (c->size == 2 ? *static_cast<const short *>(p) : (c->size == 4 ? *static_cast<const int *>(p) : *static_cast<const long long *>(p)));
    out.shown = c->str() + ":" + std::to_string(out.i);
  } else {
    out.u = c->size == 1 ? *static_cast<const unsigned char *>(p)
                         : (c->size == 2 ? *static_cast<const unsigned short *>(p)
                                         : (c->size == 4 ? *static_cast<const unsigned int *>(p) : *static_cast<const unsigned long long *>(p)));
    out.shown = c->str() + ":" + std::to_string(out.u);
  }
  return true;
}

static bool val_equal(const Val &a, const Val &b) {
  if (!(a.cls == b.cls)) return false;
  if (a.cls.fp) {
    if (std::isnan(a.f) || std::isnan(b.f)) return std::isnan(a.f) && std::isnan(b.f);
    return a.f == b.f && std::signbit(a.f) == std::signbit(b.f);
  }
  return a.i == b.i && a.u == b.u;
}

// ------------------------------------------------------------------ result records
struct Stats {
  size_t cells = 0, skipped_ub = 0, trap_cells = 0, value_cells = 0, unspellable = 0;
  std::vector<std::string> bad; // kind|route|op|L|R|l|r|expected|got
  std::map<std::string, size_t> badcount;
  void report(const std::string &kind, const std::string &route, const std::string &op, const std::string &tl, const std::string &tr,
              const std::string &l, const std::string &r, const std::string &exp, const std::string &got) {
    std::string key = kind + "|" + route + "|" + op;
    if (badcount[key]++ < 3) {
      bad.push_back(key + "|" + tl + "|" + tr + "|" + l + "|" + r + "|" + exp + "|" + got);
    }
  }
};

using Fn2 = std::function<Boxed_Value(Boxed_Value, Boxed_Value)>;
using Fn1 = std::function<Boxed_Value(Boxed_Value)>;

static void fresh_engine() {
  g_chai = vh::make_engine(true);
}

struct Invocation {
  std::string cls; // ok, arithmetic_error, eval_error, sigfpe, ...
  std::string what;
  Boxed_Value bv;
};

static Invocation invoke(const std::function<Boxed_Value()> &f) {
  Invocation inv;
  if (sigsetjmp(g_jmp, 1) != 0) {
    inv.cls = "sigfpe";
    fresh_engine();
    return inv;
  }
  g_armed = 1;
  vh::Outcome o = vh::classify([&]() -> std::string {
    inv.bv = f();
    return "";
  });
  g_armed = 0;
  inv.cls = o.cls;
  inv.what = o.what + (o.extra.empty() ? "" : " [" + o.extra + "]");
  return inv;
}

// ------------------------------------------------------------------ script side helpers (defined once per engine)
static std::map<std::string, Fn2> g_fn2;
static std::map<std::string, Fn1> g_fn1;
static const ChaiScript_Basic *g_fn_owner = nullptr;
static std::map<std::string, bool> g_lit_cache;

static void sync_owner() {
  if (g_fn_owner != g_chai.get()) {
    g_fn2.clear();
    g_fn1.clear();
    g_fn_owner = g_chai.get();
  }
}

static Fn2 &fn2(const std::string &name, const std::string &body) {
  sync_owner();
  auto it = g_fn2.find(name);
  if (it == g_fn2.end()) {
    it = g_fn2.emplace(name, g_chai->eval<Fn2>("fun(a, b) { " + body + " }")).first;
  }
  return it->second;
}

static Fn1 &fn1(const std::string &name, const std::string &body) {
  sync_owner();
  auto it = g_fn1.find(name);
  if (it == g_fn1.end()) {
    it = g_fn1.emplace(name, g_chai->eval<Fn1>("fun(a) { " + body + " }")).first;
  }
  return it->second;
}

// does the literal evaluate to exactly the intended (type, value)? (typing of literals is C16's business; a mismatch only
// removes the cell here)
static bool literal_ok(const std::string &lit, const Val &v) {
  if (lit.empty()) return false;
  auto key = v.cls.str() + ":" + lit;
  auto it = g_lit_cache.find(key);
  if (it != g_lit_cache.end()) return it->second;
  bool ok = false;
  try {
    Boxed_Value bv = g_chai->eval(lit);
    Val got;
    ok = read_val(bv, got) && val_equal(got, v);
  } catch (...) {
  }
  g_lit_cache[key] = ok;
  return ok;
}

struct Cell {
  const char *tl, *tr;
  std::string op;
  Val l, r;
  Boxed_Value bl, br; // typed operands
  std::string llit, rlit;
};

static void judge_value(Stats &st, const std::string &route, const Cell &c, const Val &expected, const Invocation &inv) {
  if (inv.cls != "ok") {
    st.report(inv.cls == "sigfpe" ? "sigfpe" : "unexpected-exception:" + inv.cls, route, c.op, c.tl, c.tr, c.l.shown, c.r.shown, expected.shown,
              inv.what);
    return;
  }
  Val got;
  if (!read_val(inv.bv, got) || !(got.cls == expected.cls)) {
    st.report("wrong-type", route, c.op, c.tl, c.tr, c.l.shown, c.r.shown, expected.shown, got.shown.empty() ? vh::render(inv.bv) : got.shown);
    return;
  }
  if (!val_equal(got, expected)) {
    st.report("wrong-value", route, c.op, c.tl, c.tr, c.l.shown, c.r.shown, expected.shown, got.shown);
  }
}

static void judge_trap(Stats &st, const std::string &route, const Cell &c, const Invocation &inv, bool compound) {
  if (inv.cls == "arithmetic_error") return;
  if (compound && inv.cls == "eval_error") return;
  if (inv.cls == "sigfpe") {
    st.report("sigfpe", route, c.op, c.tl, c.tr, c.l.shown, c.r.shown, "arithmetic_error", "SIGFPE");
  } else if (inv.cls == "ok") {
    st.report("missing-exception", route, c.op, c.tl, c.tr, c.l.shown, c.r.shown, "arithmetic_error", vh::render(inv.bv));
  } else {
    st.report("wrong-exception:" + inv.cls, route, c.op, c.tl, c.tr, c.l.shown, c.r.shown, "arithmetic_error", inv.what);
  }
}

// binary cell, type erased. e: expectation; expected: native result (valid when e == Value)
static void run_bin_cell(Stats &st, const std::string &route, const Cell &c, Exp e, const Val &expected) {
  st.cells++;
  if (e == Exp::Skip) {
    st.skipped_ub++;
    return;
  }
  Invocation inv;
  const std::string &op = c.op;
  if (route == "node") {
    inv = invoke([&] { return fn2("node" + op, "a " + op + " b")(c.bl, c.br); });
  } else if (route == "func") {
    inv = invoke([&] { return fn2("func" + op, "`" + op + "`(a, b)")(c.bl, c.br); });
  } else if (route == "rfold") {
    if (!literal_ok(c.rlit, c.r)) {
      st.unspellable++;
      st.cells--;
      return;
    }
    inv = invoke([&] { return fn1("rfold" + op + c.rlit + c.tr, "a " + op + " " + c.rlit)(c.bl); });
  } else { // cfold
    if (!literal_ok(c.llit, c.l) || !literal_ok(c.rlit, c.r)) {
      st.unspellable++;
      st.cells--;
      return;
    }
    inv = invoke([&] { return g_chai->eval(c.llit + " " + op + " " + c.rlit); });
  }
  if (e == Exp::Trap) {
    st.trap_cells++;
    judge_trap(st, route, c, inv, false);
  } else {
    st.value_cells++;
    judge_value(st, route, c, expected, inv);
  }
}

// compound cell, type erased. expected = value of the left operand afterwards (type L)
static void run_compound_cell(Stats &st, const Cell &c, Exp e, const Val &expected) {
  st.cells++;
  if (e == Exp::Skip) {
    st.skipped_ub++;
    return;
  }
  const Boxed_Value &x = c.bl; // non-const variable created by the caller
  const void *addr_before = x.get_const_ptr();
  Invocation inv = invoke([&] { return fn2("cmp" + c.op, "a " + c.op + " b")(x, c.br); });
  Val now;
  bool readable = read_val(x, now);
  if (e == Exp::Trap) {
    st.trap_cells++;
    judge_trap(st, "compound", c, inv, true);
    if (inv.cls != "sigfpe" && (!readable || !val_equal(now, c.l))) {
      st.report("lhs-changed-by-failed-op", "compound", c.op, c.tl, c.tr, c.l.shown, c.r.shown, c.l.shown, now.shown);
    }
    return;
  }
  st.value_cells++;
  if (inv.cls != "ok") {
    st.report(inv.cls == "sigfpe" ? "sigfpe" : "unexpected-exception:" + inv.cls, "compound", c.op, c.tl, c.tr, c.l.shown, c.r.shown,
              expected.shown, inv.what);
    return;
  }
  if (!readable || !(now.cls == expected.cls) || x.get_const_ptr() != addr_before) {
    st.report("lhs-type-or-identity-changed", "compound", c.op, c.tl, c.tr, c.l.shown, c.r.shown, expected.shown, now.shown);
    return;
  }
  if (!val_equal(now, expected)) {
    st.report("wrong-value", "compound", c.op, c.tl, c.tr, c.l.shown, c.r.shown, expected.shown, now.shown);
  }
  Val rv;
  if (!read_val(inv.bv, rv) || !val_equal(rv, expected)) {
    st.report("wrong-expression-value", "compound", c.op, c.tl, c.tr, c.l.shown, c.r.shown, expected.shown, rv.shown);
  }
}

// ------------------------------------------------------------------ the matrix (thin templates: only native arithmetic)
template<size_t I, typename L, typename R> void bin_cell(Stats &st, const std::string &route, Cell &c, L l, R r) {
  if constexpr (BIN[I].int_only && (std::is_floating_point_v<L> || std::is_floating_point_v<R>)) {
    return;
  } else {
    c.op = BIN[I].text;
    Exp e = expectation<I>(l, r);
    Val expected;
    if (e == Exp::Value) expected = make_val(native_bin<I>(l, r));
    run_bin_cell(st, route, c, e, expected);
  }
}

static const char *COMPOUND[] = {"+=", "-=", "*=", "/=", "%=", "<<=", ">>=", "&=", "|=", "^=", "="};
constexpr size_t BIN_OF_COMPOUND[] = {6, 7, 8, 9, 10, 11, 12, 13, 14, 15, 0};

template<size_t CI, typename L, typename R> void compound_cell(Stats &st, Cell &c, L l, R r) {
  constexpr size_t I = BIN_OF_COMPOUND[CI];
  constexpr bool is_assign = CI == 10;
  if constexpr (!is_assign && BIN[I].int_only && (std::is_floating_point_v<L> || std::is_floating_point_v<R>)) {
    return;
  } else {
    c.op = COMPOUND[CI];
    Exp e = Exp::Value;
    L expected{};
    if constexpr (is_assign) {
      if (!conv_defined<L>(r)) e = Exp::Skip;
      else expected = static_cast<L>(r);
    } else {
      e = expectation<I>(l, r);
      if (e == Exp::Value) {
        auto full = native_bin<I>(l, r);
        if (!conv_defined<L>(full)) e = Exp::Skip;
        else expected = static_cast<L>(full);
      }
    }
    c.bl = var(l); // fresh non-const left operand per cell
    run_compound_cell(st, c, e, make_val(expected));
  }
}

template<typename L, typename R, size_t... Is> void all_bin(Stats &st, const std::string &route, Cell &c, L l, R r, std::index_sequence<Is...>) {
  (bin_cell<Is>(st, route, c, l, r), ...);
}
template<typename L, typename R, size_t... Is> void all_compound(Stats &st, Cell &c, L l, R r, std::index_sequence<Is...>) {
  (compound_cell<Is>(st, c, l, r), ...);
}

template<typename L, typename R> void run_pair(Stats &st, const std::string &route, size_t stride, size_t phase) {
  size_t n = 0;
  for (L l : values<L>()) {
    for (R r : values<R>()) {
      if ((n++ % stride) != phase % stride) continue;
      Cell c;
      c.tl = TName<L>::name();
      c.tr = TName<R>::name();
      c.l = make_val(l);
      c.r = make_val(r);
      c.bl = (n & 1) ? const_var(l) : var(l);
      c.br = (n & 2) ? const_var(r) : var(r);
      c.llit = literal(l);
      c.rlit = literal(r);
      if (route == "compound") {
        all_compound(st, c, l, r, std::make_index_sequence<11>{});
      } else {
        all_bin(st, route, c, l, r, std::make_index_sequence<NBIN>{});
      }
    }
  }
}

// unary operators
static void run_unary_cell(Stats &st, const std::string &route, const Cell &c, const std::string &fnname, const std::string &body, bool skip,
                           const Val &expected, bool in_place) {
  st.cells++;
  if (skip) {
    st.skipped_ub++;
    return;
  }
  st.value_cells++;
  Invocation inv = invoke([&] { return fn1(fnname, body)(c.bl); });
  if (!in_place) {
    judge_value(st, route, c, expected, inv);
    return;
  }
  Val now;
  if (inv.cls != "ok") {
    st.report("unexpected-exception:" + inv.cls, route, c.op, c.tl, c.tr, c.l.shown, "-", expected.shown, inv.what);
  } else if (!read_val(c.bl, now) || !val_equal(now, expected)) {
    st.report("wrong-value", route, c.op, c.tl, c.tr, c.l.shown, "-", expected.shown, now.shown);
  }
}

template<typename L> void run_unary(Stats &st, const std::string &route) {
  using P = decltype(+L{});
  const bool node = route == "node";
  for (L l : values<L>()) {
    Cell c;
    c.tl = TName<L>::name();
    c.tr = "-";
    c.l = make_val(l);
    c.r.shown = "-";
    c.bl = const_var(l);
    {
      bool skip = false;
      if constexpr (std::is_integral_v<P> && std::is_signed_v<P>) {
        skip = static_cast<P>(l) == std::numeric_limits<P>::min();
      }
      c.op = "unary-";
      run_unary_cell(st, route, c, node ? "neg" : "negf", node ? "-a" : "`-`(a)", skip, skip ? Val{} : make_val(-l), false);
    }
    c.op = "unary+";
    run_unary_cell(st, route, c, node ? "pos" : "posf", node ? "+a" : "`+`(a)", false, make_val(+l), false);
    if constexpr (std::is_integral_v<L>) {
      c.op = "~";
      run_unary_cell(st, route, c, node ? "cpl" : "cplf", node ? "~a" : "`~`(a)", false, make_val(~l), false);
    }
    for (int dir = 0; dir < 2; ++dir) {
      bool skip = false;
      if constexpr (std::is_integral_v<L> && std::is_signed_v<L> && sizeof(L) >= sizeof(int)) {
        skip = dir == 0 ? l == std::numeric_limits<L>::max() : l == std::numeric_limits<L>::min();
      }
      L expected = l;
      if (!skip) {
        if (dir == 0) ++expected; else --expected;
      }
      const std::string opn = dir == 0 ? "++" : "--";
      c.op = opn;
      c.bl = var(l);
      run_unary_cell(st, route, c, (node ? "inc" : "incf") + opn, node ? opn + "a" : "`" + opn + "`(a)", skip, make_val(expected), true);
    }
  }
}

template<size_t LI, size_t RI> void dispatch_pair2(Stats &st, const std::string &route, size_t stride, size_t phase) {
  run_pair<std::tuple_element_t<LI, Types>, std::tuple_element_t<RI, Types>>(st, route, stride, phase);
}

template<size_t LI, size_t... RIs> void dispatch_r(Stats &st, const std::string &route, size_t ri, size_t stride, size_t phase, std::index_sequence<RIs...>) {
  ((ri == RIs ? dispatch_pair2<LI, RIs>(st, route, stride, phase) : void()), ...);
}
template<size_t... LIs> void dispatch_l(Stats &st, const std::string &route, size_t li, size_t ri, size_t stride, size_t phase, std::index_sequence<LIs...>) {
  ((li == LIs ? dispatch_r<LIs>(st, route, ri, stride, phase, std::make_index_sequence<NT>{}) : void()), ...);
}
template<size_t... LIs> void dispatch_unary(Stats &st, const std::string &route, size_t li, std::index_sequence<LIs...>) {
  ((li == LIs ? run_unary<std::tuple_element_t<LIs, Types>>(st, route) : void()), ...);
}

int main(int argc, char **argv) {
  return vh::run_main(
      argc, argv,
      [](size_t, const vh::Fields &f) -> vh::Fields {
        // PAIR route li ri stride phase | UNARY route li
        signal(SIGFPE, on_fpe);
        Stats st;
        if (f.size() >= 6 && f[0] == "PAIR") {
          dispatch_l(st, f[1], std::stoul(f[2]), std::stoul(f[3]), std::stoul(f[4]), std::stoul(f[5]), std::make_index_sequence<NT>{});
        } else if (f.size() >= 3 && f[0] == "UNARY") {
          dispatch_unary(st, f[1], std::stoul(f[2]), std::make_index_sequence<NT>{});
        } else {
          return {"bad-case"};
        }
        vh::Fields out{std::to_string(st.cells), std::to_string(st.skipped_ub), std::to_string(st.trap_cells), std::to_string(st.value_cells),
                       std::to_string(st.unspellable)};
        std::string counts;
        for (auto &kv : st.badcount) counts += kv.first + "=" + std::to_string(kv.second) + ";";
        out.push_back(counts);
        for (auto &b : st.bad) out.push_back(b);
        return out;
      },
      [] { fresh_engine(); });
}
