// C09: every evaluation leaves the scope/call stack as it found it. Fault enumeration inside the harness:
//  S decls src     decls = "k:name,k:name,..." (top-level statement index -> local it declares); src contains mark(k) before each
//                  top-level statement k and calls to cb(int) anywhere.
//  run 0 counts the N callback invocations; runs (i, kind) for i in 1..N x 8 exception kinds throw from invocation i.
//  After every run (fresh engine each): thread stack shape == shape before; get_locals() == declarations of completed statements;
//  a fixed sanity script still evaluates.  -> N, runs, outcome census, failures...
#include "common.hpp"
#include <set>

using namespace chaiscript;

struct Custom_Non_Std {
  int v;
};

struct Tok {
  int v;
};

struct Shape {
  size_t stacks, scopes, call_params, first_params, saves;
  int depth;
  bool saves_enabled;
  bool same_as(const Shape &o) const {
    return stacks == o.stacks && scopes == o.scopes && call_params == o.call_params && first_params == o.first_params && depth == o.depth
        && saves_enabled == o.saves_enabled && saves == o.saves;
  }
  std::string str() const {
    return "stacks=" + std::to_string(stacks) + " scopes=" + std::to_string(scopes) + " call_params=" + std::to_string(call_params) + " params0="
        + std::to_string(first_params) + " depth=" + std::to_string(depth) + " saves_enabled=" + (saves_enabled ? "1" : "0") + " saves="
        + std::to_string(saves);
  }
};

static Shape shape_of(ChaiScript_Basic &chai) {
  const auto v = chai.verif_stack_shape();
  return {v.stacks, v.scopes_in_top_stack, v.call_param_lists, v.params_in_top_list, v.conversion_saves, v.call_depth, v.conversion_saves_enabled};
}

static const char *KINDS[] = {"runtime_error", "out_of_range", "non_std", "int", "boxed", "eval_error", "bad_boxed_cast", "arity_error"};

struct Run {
  long invocations = 0;
  long fault_at = -1;
  int kind = 0;
  int last_mark = -1;
};
static Run g_run;

static int cb(int v) {
  ++g_run.invocations;
  if (g_run.invocations == g_run.fault_at) {
    switch (g_run.kind) {
      case 0: throw std::runtime_error("injected runtime_error");
      case 1: throw std::out_of_range("injected out_of_range");
      case 2: throw Custom_Non_Std{7};
      case 3: throw 42;
      case 4: throw Boxed_Value(std::string("injected boxed"));
      case 5: throw exception::eval_error("injected eval_error");
      case 6: throw exception::bad_boxed_cast("injected bad_boxed_cast");
      default: throw exception::arity_error(3, 1);
    }
  }
  return v;
}

int main(int argc, char **argv) {
  return vh::run_main(argc, argv, [](size_t, const vh::Fields &f) -> vh::Fields {
    if (f.size() < 3 || f[0] != "S") return {"bad-case"};
    std::vector<std::pair<int, std::string>> decls;
    {
      size_t p = 0;
      const std::string &d = f[1];
      while (p < d.size()) {
        size_t e = d.find(',', p);
        if (e == std::string::npos) e = d.size();
        std::string item = d.substr(p, e - p);
        size_t c = item.find(':');
        if (c != std::string::npos) decls.emplace_back(std::stoi(item.substr(0, c)), item.substr(c + 1));
        p = e + 1;
      }
    }
    const std::string &src = f[2];
    vh::Fields failures;
    std::map<std::string, long> census;
    long runs = 0, n_invocations = 0;
    auto one_run = [&](long fault_at, int kind) {
      auto chai = vh::make_engine(true);
      chai->add(fun(&cb), "cb");
      chai->add(fun([](int k) { g_run.last_mark = k; }), "mark");
      // a call that needs a registered conversion: its converted argument is part of the saved-parameter state
      chai->add(user_type<Tok>(), "Tok");
      chai->add(type_conversion<int, Tok>([](const int &i) { return Tok{i}; }));
      chai->add(fun([](const Tok &t) { return t.v + 1; }), "take_tok");
      chai->add(fun([](const Tok &t, const std::function<int(int)> &f) { return f(t.v) + t.v; }), "tok_then");
      g_run = Run{};
      g_run.fault_at = fault_at;
      g_run.kind = kind;
      const Shape before = shape_of(*chai);
      vh::Capture cap;
      cap.begin();
      vh::Outcome o = vh::classify([&]() -> std::string {
        chai->eval(src);
        return "";
      });
      cap.end();
      ++runs;
      census[(fault_at < 0 ? std::string("nofault:") : std::string(KINDS[kind]) + "->") + o.cls + (o.cls == "std" || o.cls == "unknown" ? ":" + o.extra : "")]++;
      const Shape after = shape_of(*chai);
      const std::string tag = "fault_at=" + std::to_string(fault_at) + " kind=" + (fault_at < 0 ? "-" : KINDS[kind]) + " outcome=" + o.cls;
      if (!before.same_as(after)) {
        failures.push_back("stack-shape-changed|" + tag + "|before: " + before.str() + "|after: " + after.str());
      }
      // locals == declarations of completed top-level statements
      std::set<std::string> expected;
      for (const auto &d : decls) {
        if (o.cls == "ok" || d.first < g_run.last_mark) expected.insert(d.second);
      }
      std::set<std::string> got;
      for (const auto &kv : chai->get_locals()) got.insert(kv.first);
      if (got != expected) {
        std::string g, e;
        for (auto &x : got) g += x + " ";
        for (auto &x : expected) e += x + " ";
        failures.push_back("top-level-locals-wrong|" + tag + " last_mark=" + std::to_string(g_run.last_mark) + "|expected: " + e + "|got: " + g);
      }
      // the engine still works
      vh::Outcome s = vh::classify([&]() -> std::string {
        return vh::render(chai->eval("def sanity_fn_(a) { var t = a * 2; t }; var sanity_v_ = 40 + 2; sanity_fn_(sanity_v_)"));
      });
      if (!(s.cls == "ok" && s.what == "int:84")) {
        failures.push_back("engine-unusable-afterwards|" + tag + "|sanity: " + s.cls + " " + s.what);
      }
      const Shape after2 = shape_of(*chai);
      if (!before.same_as(after2)) failures.push_back("stack-shape-changed-after-sanity|" + tag + "|" + after2.str());
      return g_run.invocations;
    };
    n_invocations = one_run(-1, 0);
    const long cap_n = std::min<long>(n_invocations, 60);
    for (long i = 1; i <= cap_n; ++i) {
      for (int k = 0; k < 8; ++k) one_run(i, k);
    }
    vh::Fields out{std::to_string(n_invocations), std::to_string(runs)};
    std::string cs;
    for (auto &kv : census) cs += kv.first + "=" + std::to_string(kv.second) + ";";
    out.push_back(cs);
    size_t lim = 0;
    for (auto &x : failures) {
      if (lim++ < 6) out.push_back(x);
    }
    return out;
  });
}
