// C08: re-evaluation determinism.
//  R defs order call1 call2 ...   fresh engine; defs are parsed once and evaluated through eval(AST); every call expression is
//                                parsed once; 'order' is a comma separated list of call indices; odd positions in the order
//                                evaluate the call from source text, even positions re-evaluate the stored parse tree.
//  -> defs outcome, tree-dump-equal?, then per executed call: index US cls US rendered US stdout
#include "common.hpp"

using namespace chaiscript;
static const char US = '\x1f';

int main(int argc, char **argv) {
  return vh::run_main(argc, argv, [](size_t, const vh::Fields &f) -> vh::Fields {
    if (f.size() < 4 || f[0] != "R") return {"bad-case"};
    auto chai = vh::make_engine(true);
    vh::Fields out;
    AST_NodePtr defs;
    std::string dump0;
    vh::Capture cap0;
    cap0.begin();
    vh::Outcome o = vh::classify([&]() -> std::string {
      defs = chai->parse(f[1]);
      dump0 = defs->to_string();
      chai->eval(*defs);
      return "";
    });
    cap0.end();
    out.push_back(o.cls + US + o.what);
    if (o.cls != "ok") return out;
    std::vector<AST_NodePtr> trees;
    std::vector<std::string> tdumps;
    for (size_t i = 3; i < f.size(); ++i) {
      try {
        trees.push_back(chai->parse(f[i]));
        tdumps.push_back(trees.back()->to_string());
      } catch (...) {
        trees.push_back(nullptr);
        tdumps.push_back("");
      }
    }
    out.push_back("");
    size_t pos = 0, n = 0;
    const std::string &order = f[2];
    while (pos < order.size()) {
      size_t e = order.find(',', pos);
      if (e == std::string::npos) e = order.size();
      size_t idx = std::stoul(order.substr(pos, e - pos));
      pos = e + 1;
      std::string rendered;
      vh::Capture cap;
      cap.begin();
      vh::Outcome oc = vh::classify([&]() -> std::string {
        if ((n & 1) && trees[idx]) rendered = vh::render(chai->eval(*trees[idx]));
        else rendered = vh::render(chai->eval(f[3 + idx]));
        return "";
      });
      std::string so = cap.end();
      // eval(AST_Node) delivers an eval_error boxed (for script-level catch); eval(string) delivers it as is: same outcome
      if (oc.cls == "boxed" && oc.what.find("chaiscript::exception::eval_error") != std::string::npos) {
        oc.cls = "eval_error";
        oc.what.clear();
      }
      ++n;
      out.push_back(std::to_string(idx) + US + oc.cls + US + rendered + US + so + US + oc.what.substr(0, 120));
    }
    bool same = defs->to_string() == dump0;
    for (size_t i = 0; i < trees.size(); ++i) {
      if (trees[i] && trees[i]->to_string() != tdumps[i]) same = false;
    }
    out[1] = same ? "trees-unchanged" : "TREE-CHANGED";
    return out;
  });
}
