// C06: C++ functions are only ever entered with correctly typed arguments.
//  D  sig,sig,...  call call ...      inbound: signatures (catalogue ids, arity 1: "3", arity 2: "3+7") are registered under the name f in the
//                                     given order on a fresh engine; each call is a ';'-joined list of argument kind names.
//       -> per call: cls US entries   entries = list of "overload-index:recv|recv:ident|ident" (one per entry into a logging function)
//  O  kind target                     outbound: value kind handed to C++ as target type through eval<T>, boxed_cast<T>, std::function
//       -> per route: outcome
#include "common.hpp"
#include <set>

using namespace chaiscript;
static const char US = '\x1f';

struct Base {
  int b = 11;
  virtual ~Base() = default;
  virtual int id() const { return 1; }
};
struct Derived : Base {
  int d = 22;
  int id() const override { return 2; }
};
struct Other {
  int o = 33;
};

struct Entry {
  int overload;
  std::vector<std::string> recv;
  std::vector<const void *> addr;
};
static std::vector<Entry> g_log;
static int g_current_overload = -1;

template<typename T> std::string show(const T &v) {
  if constexpr (std::is_same_v<T, bool>) return std::string("bool:") + (v ? "true" : "false");
  else if constexpr (std::is_arithmetic_v<T>) {
    char buf[64];
    std::snprintf(buf, sizeof buf, "num:%.17Lg", static_cast<long double>(v));
    return buf;
  } else if constexpr (std::is_same_v<T, std::string>) return "string:" + v;
  else if constexpr (std::is_same_v<T, Derived>) return "Derived:" + std::to_string(v.b) + "/" + std::to_string(v.d);
  else if constexpr (std::is_same_v<T, Base>) return std::string(v.id() == 2 ? "Base(dyn Derived):" : "Base:") + std::to_string(v.b);
  else if constexpr (std::is_same_v<T, Other>) return "Other:" + std::to_string(v.o);
  else return "?";
}

// parameter forms
template<typename T> struct ByValue {
  using P = T;
  static std::string s(const T &v) { return show(v); }
  static const void *a(const T &) { return nullptr; }
};
template<typename T> struct ByCRef {
  using P = const T &;
  static std::string s(const T &v) { return show(v); }
  static const void *a(const T &v) { return &v; }
};
template<typename T> struct ByRef {
  using P = T &;
  static std::string s(T &v) { return show(v); }
  static const void *a(T &v) { return &v; }
};
template<typename T> struct ByPtr {
  using P = T *;
  static std::string s(T *v) { return v ? show(*v) : "null"; }
  static const void *a(T *v) { return v; }
};
template<typename T> struct ByCPtr {
  using P = const T *;
  static std::string s(const T *v) { return v ? show(*v) : "null"; }
  static const void *a(const T *v) { return v; }
};
template<typename T> struct ByShared {
  using P = std::shared_ptr<T>;
  static std::string s(const std::shared_ptr<T> &v) { return v ? show(*v) : "null"; }
  static const void *a(const std::shared_ptr<T> &v) { return v.get(); }
};
template<typename T> struct ByCShared {
  using P = std::shared_ptr<const T>;
  static std::string s(const std::shared_ptr<const T> &v) { return v ? show(*v) : "null"; }
  static const void *a(const std::shared_ptr<const T> &v) { return v.get(); }
};
struct ByBoxed {
  using P = Boxed_Value;
  static std::string s(const Boxed_Value &v) { return "boxed:" + vh::render(v).substr(0, 40); }
  static const void *a(const Boxed_Value &v) { return v.get_const_ptr(); }
};
struct ByNumber {
  using P = Boxed_Number;
  static std::string s(const Boxed_Number &v) { return "number:" + v.to_string(); }
  static const void *a(const Boxed_Number &) { return nullptr; }
};
struct ByFunction {
  using P = std::function<int(int)>;
  static std::string s(const std::function<int(int)> &f) { return "function->" + std::to_string(f(20)); }
  static const void *a(const std::function<int(int)> &) { return nullptr; }
};
struct ByIntVector {
  using P = const std::vector<int> &;
  static std::string s(const std::vector<int> &v) {
    std::string o = "intvector:";
    for (int x : v) o += std::to_string(x) + ",";
    return o;
  }
  static const void *a(const std::vector<int> &) { return nullptr; }
};
struct ByIntMap {
  using P = const std::map<std::string, int> &;
  static std::string s(const std::map<std::string, int> &m) {
    std::string o = "intmap:";
    for (auto &kv : m) o += kv.first + "=" + std::to_string(kv.second) + ",";
    return o;
  }
  static const void *a(const std::map<std::string, int> &) { return nullptr; }
};
struct Wrapped {
  int w = 0;
};
struct ByWrapped {
  using P = const Wrapped &;
  static std::string s(const Wrapped &v) { return "wrapped:" + std::to_string(v.w); }
  static const void *a(const Wrapped &) { return nullptr; }
};
struct ByVector {
  using P = const std::vector<Boxed_Value> &;
  static std::string s(const std::vector<Boxed_Value> &v) { return "vector:" + std::to_string(v.size()); }
  static const void *a(const std::vector<Boxed_Value> &v) { return &v; }
};

using Registrar = std::function<void(ChaiScript_Basic &, const std::string &, int)>;

template<typename F1> Registrar reg1() {
  return [](ChaiScript_Basic &c, const std::string &name, int idx) {
    c.add(fun([idx](typename F1::P p) {
            g_log.push_back({idx, {F1::s(p)}, {F1::a(p)}});
            return idx;
          }),
          name);
  };
}
template<typename F1, typename F2> Registrar reg2() {
  return [](ChaiScript_Basic &c, const std::string &name, int idx) {
    c.add(fun([idx](typename F1::P p, typename F2::P q) {
            g_log.push_back({idx, {F1::s(p), F2::s(q)}, {F1::a(p), F2::a(q)}});
            return idx;
          }),
          name);
  };
}

// catalogue of single-parameter forms (index = signature id used by the driver; keep in sync with checks/c06.py)
#define FORMS(T) reg1<ByValue<T>>(), reg1<ByCRef<T>>(), reg1<ByRef<T>>(), reg1<ByPtr<T>>(), reg1<ByCPtr<T>>(), reg1<ByShared<T>>(), reg1<ByCShared<T>>()
static const std::vector<Registrar> &catalogue1() {
  static const std::vector<Registrar> c = {FORMS(int), FORMS(double), FORMS(bool), FORMS(std::string), FORMS(Base), FORMS(Derived), FORMS(Other),
                                           reg1<ByValue<char>>(), reg1<ByValue<unsigned int>>(), reg1<ByValue<long>>(), reg1<ByValue<float>>(),
                                           reg1<ByCRef<long long>>(), reg1<ByBoxed>(), reg1<ByNumber>(), reg1<ByFunction>(), reg1<ByVector>(),
                                           reg1<ByIntVector>(), reg1<ByIntMap>(), reg1<ByWrapped>()};
  return c;
}
// a small catalogue of two-parameter signatures
static const std::vector<Registrar> &catalogue2() {
  static const std::vector<Registrar> c = {reg2<ByValue<int>, ByValue<int>>(),         reg2<ByValue<int>, ByValue<double>>(),      reg2<ByValue<double>, ByValue<int>>(),
                                           reg2<ByValue<int>, ByCRef<std::string>>(),  reg2<ByCRef<std::string>, ByValue<int>>(), reg2<ByCRef<Base>, ByValue<int>>(),
                                           reg2<ByRef<Derived>, ByValue<int>>(),       reg2<ByValue<bool>, ByValue<int>>(),       reg2<ByBoxed, ByBoxed>(),
                                           reg2<ByCRef<std::string>, ByCRef<std::string>>(), reg2<ByRef<int>, ByRef<int>>(),     reg2<ByValue<double>, ByValue<double>>()};
  return c;
}

struct Objects {
  Base ob;
  Derived od;
  Other oo;
  const Base cob{};
  const Derived cod{};
  int hi = 71;
  const int chi = 72;
  std::string hs = "harness-string";
  std::shared_ptr<Base> sb = std::make_shared<Base>();
  std::shared_ptr<Derived> sd = std::make_shared<Derived>();
  std::shared_ptr<const Base> scb = std::make_shared<const Base>();
  std::shared_ptr<const Derived> scd = std::make_shared<const Derived>();
};

static void add_objects(ChaiScript_Basic &chai, Objects &o) {
  chai.add(user_type<Base>(), "Base");
  chai.add(user_type<Derived>(), "Derived");
  chai.add(user_type<Other>(), "Other");
  chai.add(base_class<Base, Derived>());
  // registered conversions: script Vector -> std::vector<int>, script Map -> std::map<string,int>, and a user conversion Other -> Wrapped
  chai.add(vector_conversion<std::vector<int>>());
  chai.add(map_conversion<std::map<std::string, int>>());
  chai.add(user_type<Wrapped>(), "Wrapped");
  chai.add(type_conversion<Other, Wrapped>([](const Other &o) { return Wrapped{o.o + 1000}; }));
  chai.add(constructor<Base()>(), "Base");
  chai.add(constructor<Derived()>(), "Derived");
  chai.add(constructor<Other()>(), "Other");
  chai.add_global(var(std::ref(o.ob)), "ob");
  chai.add_global(var(std::ref(o.od)), "od");
  chai.add_global(var(std::ref(o.oo)), "oo");
  chai.add_global_const(const_var(std::cref(o.cob)), "cob");
  chai.add_global_const(const_var(std::cref(o.cod)), "cod");
  chai.add_global(var(std::ref(o.hi)), "hi");
  chai.add_global_const(const_var(std::cref(o.chi)), "chi");
  chai.add_global(var(std::ref(o.hs)), "hs");
  chai.add_global(var(o.sb), "sb");
  chai.add_global(var(o.sd), "sd");
  chai.add_global_const(const_var(o.scb), "scb");
  chai.add_global_const(const_var(o.scd), "scd");
  chai.add_global(var(&o.ob), "pb");
  chai.eval("global vi = 5; global vm = [\"a\": 1, \"b\": 2]; global vmix = [1, \"x\"]; global vd = 2.5; global vb = true; global vs = \"str\"; global vc = 'c'; global vv = [1, 2];"
            "global sf = fun(x) { x + 1 }; class Dyn { def Dyn() { } }; global dy = Dyn(); global un; global vl = 7l; global vu = 8u; global vf = 1.5f;"
            "global sbo = Base(); global sdo = Derived(); global soo = Other();");
}

static const std::map<std::string, std::string> &kinds() {
  static const std::map<std::string, std::string> k = {
      {"lit_int", "5"}, {"var_int", "vi"}, {"const_int", "chi"}, {"href_int", "hi"}, {"lit_dbl", "2.5"}, {"var_dbl", "vd"}, {"lit_bool", "true"}, {"var_bool", "vb"},
      {"lit_str", "\"s\""}, {"var_str", "vs"}, {"href_str", "hs"}, {"var_char", "vc"}, {"var_long", "vl"}, {"var_uint", "vu"}, {"var_float", "vf"},
      {"base", "ob"}, {"derived", "od"}, {"other", "oo"}, {"const_base", "cob"}, {"const_derived", "cod"}, {"shared_base", "sb"}, {"shared_derived", "sd"},
      {"shared_const_base", "scb"}, {"shared_const_derived", "scd"}, {"ptr_base", "pb"}, {"script_base", "sbo"}, {"script_derived", "sdo"}, {"script_other", "soo"},
      {"script_fn", "sf"}, {"dynobj", "dy"}, {"undef", "un"}, {"vector", "vv"}, {"map", "vm"}, {"vector_mixed", "vmix"}, {"ret_int", "(vi + 1)"}, {"ret_str", "(vs + \"x\")"}};
  return k;
}

static std::vector<std::string> split(const std::string &s, char c) {
  std::vector<std::string> out;
  size_t p = 0;
  while (true) {
    size_t e = s.find(c, p);
    if (e == std::string::npos) {
      out.push_back(s.substr(p));
      break;
    }
    out.push_back(s.substr(p, e - p));
    p = e + 1;
  }
  return out;
}

template<typename T> std::string outbound(ChaiScript_Basic &chai, const std::string &expr) {
  std::string res;
  // route 1: eval<T>
  vh::Outcome o = vh::classify([&]() -> std::string {
    if constexpr (std::is_reference_v<T> || std::is_pointer_v<T>) {
      auto &&v = chai.eval<T>(expr);
      (void)v;
      return "value";
    } else {
      return show(chai.eval<T>(expr));
    }
  });
  res = "eval:" + (o.cls == "ok" ? "value=" + o.what : o.cls + (o.cls == "std" || o.cls == "unknown" ? "(" + o.extra + ")" : ""));
  // route 2: boxed_cast<T>
  vh::Outcome o2 = vh::classify([&]() -> std::string {
    Boxed_Value bv = chai.eval(expr);
    if constexpr (std::is_reference_v<T> || std::is_pointer_v<T>) {
      auto &&v = chai.boxed_cast<T>(bv);
      (void)v;
      return "value";
    } else {
      return show(chai.boxed_cast<T>(bv));
    }
  });
  res += std::string(1, US) + "boxed_cast:" + (o2.cls == "ok" ? "value=" + o2.what : o2.cls + (o2.cls == "std" || o2.cls == "unknown" ? "(" + o2.extra + ")" : ""));
  // route 3: std::function<T()> around a script function returning the value
  if constexpr (!std::is_reference_v<T> && !std::is_pointer_v<T>) {
    vh::Outcome o3 = vh::classify([&]() -> std::string {
      auto f = chai.eval<std::function<T()>>("fun() { " + expr + " }");
      return show(f());
    });
    res += std::string(1, US) + "function:" + (o3.cls == "ok" ? "value=" + o3.what : o3.cls + (o3.cls == "std" || o3.cls == "unknown" ? "(" + o3.extra + ")" : ""));
  }
  return res;
}

int main(int argc, char **argv) {
  return vh::run_main(argc, argv, [](size_t, const vh::Fields &f) -> vh::Fields {
    if (f.size() >= 3 && f[0] == "D") {
      Objects objs;
      auto chai = vh::make_engine(true);
      add_objects(*chai, objs);
      int idx = 0;
      for (const auto &sig : split(f[1], ',')) {
        if (sig.rfind("2:", 0) == 0) catalogue2()[std::stoul(sig.substr(2))](*chai, "f", idx);
        else catalogue1()[std::stoul(sig)](*chai, "f", idx);
        ++idx;
      }
      vh::Fields out;
      for (size_t i = 2; i < f.size(); ++i) {
        std::vector<std::string> args = split(f[i], ';');
        std::string call = "f(";
        std::vector<const void *> arg_addr;
        std::vector<std::string> arg_render;
        for (size_t a = 0; a < args.size(); ++a) {
          if (args[a].empty()) continue;
          const std::string &expr = kinds().at(args[a]);
          call += (a ? ", " : "") + expr;
          Boxed_Value bv = chai->eval(expr);
          arg_addr.push_back(bv.get_const_ptr());
        }
        call += ")";
        g_log.clear();
        vh::Outcome o = vh::classify([&]() -> std::string { return vh::render(chai->eval(call)); });
        std::string rec = o.cls + US + (o.cls == "ok" ? o.what : o.what.substr(0, 80));
        for (const auto &e : g_log) {
          std::string er = std::to_string(e.overload) + ":";
          for (size_t k = 0; k < e.recv.size(); ++k) er += (k ? "|" : "") + e.recv[k];
          er += ":";
          for (size_t k = 0; k < e.addr.size(); ++k) {
            er += (k ? "|" : "");
            er += e.addr[k] == nullptr ? "-" : (k < arg_addr.size() && e.addr[k] == arg_addr[k] ? "same" : "other");
          }
          rec += US + er;
        }
        out.push_back(rec);
      }
      return out;
    }
    if (f.size() >= 3 && f[0] == "O") {
      Objects objs;
      auto chai = vh::make_engine(true);
      add_objects(*chai, objs);
      const std::string &expr = kinds().at(f[1]);
      const std::string &t = f[2];
      std::string r;
      if (t == "int") r = outbound<int>(*chai, expr);
      else if (t == "double") r = outbound<double>(*chai, expr);
      else if (t == "bool") r = outbound<bool>(*chai, expr);
      else if (t == "string") r = outbound<std::string>(*chai, expr);
      else if (t == "unsigned") r = outbound<unsigned int>(*chai, expr);
      else if (t == "long") r = outbound<long>(*chai, expr);
      else if (t == "char") r = outbound<char>(*chai, expr);
      else if (t == "Base") r = outbound<Base>(*chai, expr);
      else if (t == "Derived") r = outbound<Derived>(*chai, expr);
      else if (t == "Other") r = outbound<Other>(*chai, expr);
      else if (t == "int&") r = outbound<int &>(*chai, expr);
      else if (t == "const string&") r = outbound<const std::string &>(*chai, expr);
      else if (t == "Base&") r = outbound<Base &>(*chai, expr);
      else if (t == "const Base&") r = outbound<const Base &>(*chai, expr);
      else if (t == "Derived&") r = outbound<Derived &>(*chai, expr);
      else if (t == "Base*") r = outbound<Base *>(*chai, expr);
      else return {"bad-target"};
      return split(r, US);
    }
    return {"bad-case"};
  });
}
