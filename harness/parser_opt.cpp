#include <chaiscript/language/chaiscript_parser.hpp>
#include "libs.hpp"
std::unique_ptr<chaiscript::parser::ChaiScript_Parser_Base> verif_create_parser_opt() {
  return std::make_unique<chaiscript::parser::ChaiScript_Parser<chaiscript::eval::Noop_Tracer, chaiscript::optimizer::Optimizer_Default>>();
}
