// C18: JSON round trip and robustness.
//  V spec                       build the value tree from 'spec' through the C++ API, s = to_json(v), v2 = from_json(s), compare
//  T text                       v1 = from_json(text) (or exception); if accepted: v2 = from_json(to_json(v1)), compare
//  N prefix n middle suffix     from_json(prefix*n + middle + suffix*n): outcome only (nesting probes)
// The text handed to from_json lives in a heap string whose terminator is poisoned (reads past the input are observable).
#include "common.hpp"
#include <cmath>

#if defined(__has_feature)
#if __has_feature(address_sanitizer)
#define VH_ASAN 1
#endif
#endif
#if defined(__SANITIZE_ADDRESS__)
#define VH_ASAN 1
#endif
#ifdef VH_ASAN
#include <sanitizer/asan_interface.h>
#endif

using namespace chaiscript;

static std::unique_ptr<ChaiScript_Basic> g_chai;
static std::function<Boxed_Value(const std::string &)> g_from;
static std::function<std::string(const Boxed_Value &)> g_to;

struct Parser {
  const std::string &s;
  size_t p = 0;
  long long num() {
    size_t e = s.find_first_of(";:", p);
    long long v = std::stoll(s.substr(p, e - p));
    p = e + 1;
    return v;
  }
  Boxed_Value value() {
    char c = s.at(p++);
    switch (c) {
      case 'i': {
        long long v = num();
        if (v >= INT32_MIN && v <= INT32_MAX) return var(static_cast<int>(v));
        return var(v);
      }
      case 'b': return var(s.at(p++) == '1');
      case 'n': return Boxed_Value();
      case 's': {
        size_t len = static_cast<size_t>(num());
        std::string str = s.substr(p, len);
        p += len;
        return var(str);
      }
      case 'v': {
        size_t n = static_cast<size_t>(num());
        std::vector<Boxed_Value> v;
        for (size_t i = 0; i < n; ++i) v.push_back(value());
        return var(v);
      }
      case 'm': {
        size_t n = static_cast<size_t>(num());
        std::map<std::string, Boxed_Value> m;
        for (size_t i = 0; i < n; ++i) {
          size_t len = static_cast<size_t>(num());
          std::string k = s.substr(p, len);
          p += len;
          m[k] = value();
        }
        return var(m);
      }
    }
    throw std::runtime_error("bad spec");
  }
};

static bool num_value(const Boxed_Value &bv, bool &is_fp, long double &f, long long &i) {
  const Type_Info &ti = bv.get_type_info();
  if (bv.is_undef() || !ti.is_arithmetic()) return false;
  Boxed_Number n(bv);
  is_fp = Boxed_Number::is_floating_point(bv);
  if (is_fp) f = n.get_as<long double>();
  else i = n.get_as<long long>();
  return true;
}

static bool same(const Boxed_Value &a, const Boxed_Value &b, std::string &why, int depth = 0) {
  if (depth > 64) return true;
  const bool an = a.is_undef() || a.is_null(), bn = b.is_undef() || b.is_null();
  if (an || bn) {
    if (an != bn) why = "null vs " + vh::render(an ? b : a).substr(0, 80);
    return an == bn;
  }
  const Type_Info &ta = a.get_type_info(), &tb = b.get_type_info();
  bool fa = false, fb = false;
  long double da = 0, db = 0;
  long long ia = 0, ib = 0;
  const bool na = num_value(a, fa, da, ia), nb = num_value(b, fb, db, ib);
  if (na || nb) {
    if (na != nb) {
      why = "number vs non-number";
      return false;
    }
    if (!fa && !fb) {
      if (ia != ib) why = "int " + std::to_string(ia) + " vs " + std::to_string(ib);
      return ia == ib;
    }
    long double x = fa ? da : static_cast<long double>(ia), y = fb ? db : static_cast<long double>(ib);
    if (std::isnan(x) || std::isnan(y)) {
      if (!(std::isnan(x) && std::isnan(y))) why = "nan mismatch";
      return std::isnan(x) && std::isnan(y);
    }
    long double diff = std::fabs(x - y), scale = std::max(std::fabs(x), std::fabs(y));
    bool ok = diff <= 1e-6L || diff <= 1e-6L * scale || x == y;
    if (!ok) why = "float " + std::to_string(static_cast<double>(x)) + " vs " + std::to_string(static_cast<double>(y));
    return ok;
  }
  if (!ta.bare_equal(tb)) {
    why = "type " + vh::render(a).substr(0, 60) + " vs " + vh::render(b).substr(0, 60);
    return false;
  }
  if (ta.bare_equal_type_info(typeid(bool))) {
    bool r = boxed_cast<bool>(a) == boxed_cast<bool>(b);
    if (!r) why = "bool differs";
    return r;
  }
  if (ta.bare_equal_type_info(typeid(std::string))) {
    const auto &x = boxed_cast<const std::string &>(a);
    const auto &y = boxed_cast<const std::string &>(b);
    if (x != y) why = "string '" + vh::esc(x).substr(0, 80) + "' vs '" + vh::esc(y).substr(0, 80) + "'";
    return x == y;
  }
  if (ta.bare_equal_type_info(typeid(std::vector<Boxed_Value>))) {
    const auto &x = boxed_cast<const std::vector<Boxed_Value> &>(a);
    const auto &y = boxed_cast<const std::vector<Boxed_Value> &>(b);
    if (x.size() != y.size()) {
      why = "vector size " + std::to_string(x.size()) + " vs " + std::to_string(y.size());
      return false;
    }
    for (size_t i = 0; i < x.size(); ++i) {
      if (!same(x[i], y[i], why, depth + 1)) return false;
    }
    return true;
  }
  if (ta.bare_equal_type_info(typeid(std::map<std::string, Boxed_Value>))) {
    const auto &x = boxed_cast<const std::map<std::string, Boxed_Value> &>(a);
    const auto &y = boxed_cast<const std::map<std::string, Boxed_Value> &>(b);
    if (x.size() != y.size()) {
      why = "map size " + std::to_string(x.size()) + " vs " + std::to_string(y.size());
      return false;
    }
    auto ix = x.begin();
    auto iy = y.begin();
    for (; ix != x.end(); ++ix, ++iy) {
      if (ix->first != iy->first) {
        why = "key '" + vh::esc(ix->first).substr(0, 60) + "' vs '" + vh::esc(iy->first).substr(0, 60) + "'";
        return false;
      }
      if (!same(ix->second, iy->second, why, depth + 1)) return false;
    }
    return true;
  }
  why = "unexpected type " + vh::render(a).substr(0, 60);
  return false;
}

static std::string *make_exact(const std::string &content) {
  auto *s = new std::string();
  s->reserve(std::max<size_t>(content.size(), 24));
  s->assign(content);
#ifdef VH_ASAN
  __asan_poison_memory_region(s->data() + s->size(), s->capacity() + 1 - s->size());
#endif
  return s;
}
static void release_exact(std::string *s) {
#ifdef VH_ASAN
  __asan_unpoison_memory_region(s->data() + s->size(), s->capacity() + 1 - s->size());
#endif
  delete s;
}

static vh::Fields text_case(const std::string &text, bool roundtrip) {
  Boxed_Value v1;
  std::string *s = make_exact(text);
  vh::Outcome o = vh::classify([&]() -> std::string {
    v1 = g_from(*s);
    return "";
  });
  release_exact(s);
  if (o.cls != "ok") return {"rejected", o.cls, o.extra, o.what.substr(0, 200)};
  if (!roundtrip) return {"accepted", "", "", ""};
  std::string s2, why;
  Boxed_Value v2;
  vh::Outcome o2 = vh::classify([&]() -> std::string {
    s2 = g_to(v1);
    v2 = g_from(s2);
    return "";
  });
  if (o2.cls != "ok") return {"accepted-but-roundtrip-throws", o2.cls, o2.extra, o2.what.substr(0, 200), s2.substr(0, 400)};
  if (!same(v1, v2, why)) return {"accepted-but-roundtrip-differs", why, "", "", s2.substr(0, 400)};
  return {"accepted", "", "", "", ""};
}

static std::string repeat(const std::string &s, size_t n) {
  std::string o;
  o.reserve(s.size() * n);
  for (size_t i = 0; i < n; ++i) o += s;
  return o;
}

#ifndef C18_NO_MAIN
int main(int argc, char **argv) {
  return vh::run_main(
      argc, argv,
      [](size_t, const vh::Fields &f) -> vh::Fields {
        if (f.size() >= 2 && f[0] == "V") {
          Parser p{f[1]};
          Boxed_Value v = p.value();
          std::string s, why;
          Boxed_Value v2;
          vh::Outcome o = vh::classify([&]() -> std::string {
            s = g_to(v);
            v2 = g_from(s);
            return "";
          });
          if (o.cls != "ok") return {"roundtrip-throws", o.cls, o.extra, o.what.substr(0, 200), s.substr(0, 400)};
          if (!same(v, v2, why)) return {"roundtrip-differs", why, "", "", s.substr(0, 400)};
          return {"ok", "", "", "", s.substr(0, 200)};
        }
        if (f.size() >= 2 && f[0] == "T") return text_case(f[1], true);
        if (f.size() >= 2 && f[0] == "Q") {
          // Q spec spec ...   a history of texts in one process: spec = prefix US n US middle US suffix ; outcome per text
          vh::Fields out;
          for (size_t i = 1; i < f.size(); ++i) {
            std::vector<std::string> p;
            size_t b = 0;
            while (true) {
              size_t e = f[i].find('\x1f', b);
              if (e == std::string::npos) {
                p.push_back(f[i].substr(b));
                break;
              }
              p.push_back(f[i].substr(b, e - b));
              b = e + 1;
            }
            if (p.size() != 4) {
              out.push_back("bad-spec");
              continue;
            }
            size_t n = static_cast<size_t>(std::stoull(p[1]));
            out.push_back(text_case(repeat(p[0], n) + p[2] + repeat(p[3], n), false)[0]);
          }
          return out;
        }
        if (f.size() >= 5 && f[0] == "N") {
          size_t n = static_cast<size_t>(std::stoull(f[2]));
          return text_case(repeat(f[1], n) + f[3] + repeat(f[4], n), n <= 2000);
        }
        return {"bad-case"};
      },
      [] {
        g_chai = vh::make_engine(true);
        g_from = g_chai->eval<std::function<Boxed_Value(const std::string &)>>("from_json");
        g_to = g_chai->eval<std::function<std::string(const Boxed_Value &)>>("to_json");
      });
}
#endif
